package interpreter

//verif:pkg interpreter

import (
	ghttp "net/http"
	"net/url"
	"time"

	"github.com/ysugimoto/falco/v2/ast"
	"github.com/ysugimoto/falco/v2/interpreter/context"
	ihttp "github.com/ysugimoto/falco/v2/interpreter/http"
	"github.com/ysugimoto/falco/v2/interpreter/process"
	"github.com/ysugimoto/falco/v2/interpreter/value"
	"github.com/ysugimoto/falco/v2/interpreter/variable"
	"github.com/ysugimoto/falco/v2/token"
	"github.com/ysugimoto/falco/v2/zz_verif/nondet"
)

// C13: evaluation changes only what it names.  A pool of local variables of
// every scalar type holds symbolic values; expressions / assignments / calls
// built from symbolic operators run through the real interpreter; afterwards
// every variable that was not the target must hold exactly its old value.

func fRequest() *ihttp.Request {
	return ihttp.WrapRequest(&ghttp.Request{Method: "GET", Header: ghttp.Header{}, URL: &url.URL{Path: "/"}})
}

func fm() *ast.Meta { return &ast.Meta{Token: token.Token{Line: 1, Position: 1}} }

var fPoolNames = []string{"var.i1", "var.i2", "var.f1", "var.r1", "var.b1", "var.s1", "var.s2"}

var fBackendA = &ast.BackendDeclaration{Meta: fm(), Name: &ast.Ident{Meta: fm(), Value: "example"}}
var fBackendB = &ast.BackendDeclaration{Meta: fm(), Name: &ast.Ident{Meta: fm(), Value: "b2"}}

type fSnap struct {
	i1, i2       value.Integer
	f1           value.Float
	r1           value.RTime
	b1           value.Boolean
	s1v, s2v     string
	s1ns, s2ns   bool
	s1lit, s2lit bool
	bk           *ast.BackendDeclaration
	bklit        bool
}

type fPool struct {
	i1, i2 *value.Integer
	f1     *value.Float
	r1     *value.RTime
	b1     *value.Boolean
	s1, s2 *value.String
	bk     *value.Backend
}

func fSetup() (*Interpreter, *fPool) {
	i := New()
	i.ctx = context.New()
	i.ctx.Scope = context.RecvScope
	i.process = process.New()
	p := &fPool{
		i1: &value.Integer{Value: nondet.Int64("i1")},
		i2: &value.Integer{Value: nondet.Int64("i2"), IsNAN: nondet.Bool("i2_nan")},
		f1: &value.Float{Value: nondet.Float64("f1")},
		r1: &value.RTime{Value: time.Duration(nondet.Int64("r1"))},
		b1: &value.Boolean{Value: nondet.Bool("b1")},
		s1: &value.String{Value: nondet.StringIn("s1", 1, 0x20, 0x7e), IsNotSet: nondet.Bool("s1_ns")},
		s2: &value.String{Value: nondet.StringIn("s2", 1, 0x20, 0x7e)},
		bk: &value.Backend{Value: fBackendA},
	}
	i.ctx.Backends = map[string]*value.Backend{"example": {Value: fBackendA, Literal: true}, "b2": {Value: fBackendB, Literal: true}}
	i.localVars = variable.LocalVariables{"var.i1": p.i1, "var.i2": p.i2, "var.f1": p.f1, "var.r1": p.r1, "var.b1": p.b1, "var.s1": p.s1, "var.s2": p.s2, "var.bk": p.bk}
	return i, p
}

func (p *fPool) snap() fSnap {
	return fSnap{i1: *p.i1, i2: *p.i2, f1: *p.f1, r1: *p.r1, b1: *p.b1, s1v: p.s1.Value, s2v: p.s2.Value,
		s1ns: p.s1.IsNotSet, s2ns: p.s2.IsNotSet, s1lit: p.s1.Literal, s2lit: p.s2.Literal, bk: p.bk.Value, bklit: p.bk.Literal}
}

func fSameFloat(a, b value.Float) bool {
	if a.Value != b.Value && (a.Value == a.Value || b.Value == b.Value) {
		return false
	}
	return a.IsNAN == b.IsNAN && a.IsNegativeInf == b.IsNegativeInf && a.IsPositiveInf == b.IsPositiveInf && a.Literal == b.Literal
}

// check asserts that every pool variable except `except` is unchanged, and
// that the variables are still the same objects in the same map.
func (p *fPool) check(i *Interpreter, before fSnap, except string, what string) {
	now := p.snap()
	if except != "var.i1" {
		nondet.Assert(now.i1 == before.i1, what+": var.i1 (INTEGER) changed")
	}
	if except != "var.i2" {
		nondet.Assert(now.i2 == before.i2, what+": var.i2 (INTEGER) changed")
	}
	if except != "var.f1" {
		nondet.Assert(fSameFloat(now.f1, before.f1), what+": var.f1 (FLOAT) changed")
	}
	if except != "var.r1" {
		nondet.Assert(now.r1 == before.r1, what+": var.r1 (RTIME) changed")
	}
	if except != "var.b1" {
		nondet.Assert(now.b1 == before.b1, what+": var.b1 (BOOL) changed")
	}
	if except != "var.s1" {
		nondet.Assert(now.s1v == before.s1v && now.s1ns == before.s1ns && now.s1lit == before.s1lit, what+": var.s1 (STRING) changed")
	}
	if except != "var.s2" {
		nondet.Assert(now.s2v == before.s2v && now.s2ns == before.s2ns && now.s2lit == before.s2lit, what+": var.s2 (STRING) changed")
	}
	if except != "var.bk" {
		nondet.Assert(now.bk == before.bk && now.bklit == before.bklit, what+": var.bk (BACKEND) changed")
	}
	nondet.Assert(len(i.localVars) == 8 && i.localVars["var.bk"] == value.Value(p.bk) && i.localVars["var.i1"] == value.Value(p.i1) && i.localVars["var.i2"] == value.Value(p.i2) &&
		i.localVars["var.f1"] == value.Value(p.f1) && i.localVars["var.r1"] == value.Value(p.r1) && i.localVars["var.b1"] == value.Value(p.b1) &&
		i.localVars["var.s1"] == value.Value(p.s1) && i.localVars["var.s2"] == value.Value(p.s2), what+": the local variable frame is not the caller's frame any more")
}

var fInfixOps = []string{"==", "!=", "<", ">", "<=", ">=", "&&", "||", "+"}
var fPrefixOps = []string{"-", "!", "+"}

var fSeq int

func fName(p string) string {
	fSeq++
	return p + string(rune('a'+fSeq))
}

// fExpr builds an expression skeleton: leaves are pool variables (a symbolic
// choice of the name) or literals with symbolic values; operators are symbolic.
func fExpr(depth int) ast.Expression {
	k := 3
	if depth > 0 {
		k = 7
	}
	switch nondet.Choice(fName("k"), k) {
	case 0:
		return &ast.Ident{Meta: fm(), Value: nondet.Enum(fName("v"), fPoolNames)}
	case 1:
		return &ast.Integer{Meta: fm(), Value: nondet.Int64(fName("n"))}
	case 2:
		return &ast.String{Meta: fm(), Value: "x"}
	case 3:
		return &ast.PrefixExpression{Meta: fm(), Operator: nondet.Enum(fName("p"), fPrefixOps), Right: fExpr(depth - 1)}
	case 4:
		return &ast.GroupedExpression{Meta: fm(), Right: fExpr(depth - 1)}
	case 5:
		return &ast.InfixExpression{Meta: fm(), Operator: nondet.Enum(fName("o"), fInfixOps), Left: fExpr(depth - 1), Right: fExpr(depth - 1)}
	default:
		return &ast.IfExpression{Meta: fm(), Condition: fExpr(depth - 1), Consequence: fExpr(depth - 1), Alternative: fExpr(depth - 1)}
	}
}

// VerifExprFrame: evaluating an expression (whether it succeeds or fails)
// changes no variable.
func VerifExprFrame() {
	fSeq = 0
	i, p := fSetup()
	e := fExpr(nondet.Param("D"))
	before := p.snap()
	_, err := i.ProcessExpression(e)
	nondet.Observe("err", err != nil)
	p.check(i, before, "", "expression evaluation")
	nondet.Cover("checked")
}

var fAssignOps = []string{"=", "+=", "-=", "*=", "/=", "%=", "|=", "&=", "^=", "<<=", ">>=", "rol=", "ror=", "||=", "&&="}

// VerifSetFrame: set T op= E changes only T.
func VerifSetFrame() {
	fSeq = 0
	i, p := fSetup()
	target := fPoolNames[nondet.Param("T")]
	stmt := &ast.SetStatement{Meta: fm(), Ident: &ast.Ident{Meta: fm(), Value: target},
		Operator: &ast.Operator{Meta: fm(), Operator: nondet.Enum("op", fAssignOps)}, Value: fExpr(nondet.Param("D"))}
	before := p.snap()
	err := i.ProcessSetStatement(stmt)
	nondet.Observe("err", err != nil)
	p.check(i, before, target, "set "+target)
	nondet.Cover("checked")
}

// VerifCallFrame: a subroutine call leaves the caller's locals and capture
// groups as they were; arguments are passed by value.
func VerifCallFrame() {
	fSeq = 0
	i, p := fSetup()
	ptypes := []string{"INTEGER", "INTEGER", "FLOAT", "RTIME", "BOOL", "STRING", "STRING", "BACKEND"}
	argNames := append(append([]string{}, fPoolNames...), "var.bk")
	argIdx := nondet.Choice("arg", len(argNames))
	arg := argNames[argIdx]
	// sub callee(<type> var.p) { declare local var.x INTEGER; set var.x = 1; set var.p <op> <expr over the callee's own names>; [return;] }
	var rhs ast.Expression
	switch ptypes[argIdx] {
	case "INTEGER":
		rhs = &ast.Integer{Meta: fm(), Value: nondet.Int64("rhs")}
	case "FLOAT":
		rhs = &ast.Float{Meta: fm(), Value: 1.5}
	case "RTIME":
		rhs = &ast.RTime{Meta: fm(), Value: "5s"}
	case "BOOL":
		rhs = &ast.Boolean{Meta: fm(), Value: nondet.Bool("rhs")}
	case "BACKEND":
		rhs = &ast.Ident{Meta: fm(), Value: "b2"}
	default:
		rhs = &ast.String{Meta: fm(), Value: "changed"}
	}
	body := []ast.Statement{
		&ast.DeclareStatement{Meta: fm(), Name: &ast.Ident{Meta: fm(), Value: "var.x"}, ValueType: &ast.Ident{Meta: fm(), Value: "INTEGER"}},
		&ast.SetStatement{Meta: fm(), Ident: &ast.Ident{Meta: fm(), Value: "var.x"}, Operator: &ast.Operator{Meta: fm(), Operator: "="}, Value: &ast.Integer{Meta: fm(), Value: 1}},
		&ast.SetStatement{Meta: fm(), Ident: &ast.Ident{Meta: fm(), Value: "var.p"}, Operator: &ast.Operator{Meta: fm(), Operator: "="}, Value: rhs},
	}
	if nondet.Bool("ret") {
		body = append(body, &ast.ReturnStatement{Meta: fm()})
	}
	sub := &ast.SubroutineDeclaration{Meta: fm(), Name: &ast.Ident{Meta: fm(), Value: "callee"},
		Parameters: []*ast.SubroutineParameter{{Meta: fm(), Type: &ast.Ident{Meta: fm(), Value: ptypes[argIdx]}, Name: &ast.Ident{Meta: fm(), Value: "var.p"}}},
		Block:      &ast.BlockStatement{Meta: fm(), Statements: body}}
	i.ctx.Subroutines["callee"] = sub
	grp := &value.String{Value: "g0"}
	i.ctx.RegexMatchedValues = map[string]*value.String{"0": grp}
	groups := i.ctx.RegexMatchedValues
	before := p.snap()
	call := &ast.CallStatement{Meta: fm(), Subroutine: &ast.Ident{Meta: fm(), Value: "callee"}, Arguments: []ast.Expression{&ast.Ident{Meta: fm(), Value: arg}}}
	_, err := i.ProcessCallStatement(call, DebugPass)
	nondet.Observe("err", err != nil)
	p.check(i, before, "", "call callee("+arg+")")
	nondet.Assert(len(i.ctx.RegexMatchedValues) == 1 && i.ctx.RegexMatchedValues["0"] == grp && grp.Value == "g0" && len(groups) == 1, "call: the caller's regex capture groups changed")
	if err == nil {
		nondet.Cover("called")
	}
	nondet.Cover("checked")
}

// VerifConcatFrame: `set T = A B [C]` (string concatenation, implicit or
// explicit) with the operands chosen among the pool variables (not-set strings
// included), a not-set header and a literal, into a local variable or a
// header: no operand changes.
func VerifConcatFrame() {
	fSeq = 0
	i, p := fSetup()
	i.ctx.Request = fRequest()
	i.SetScope(context.RecvScope)
	operand := func(n string) ast.Expression {
		names := append(append([]string{}, fPoolNames...), "req.http.Unset", "\"lit\"")
		c := names[nondet.Choice(n, len(names))]
		if c[0] == '"' {
			return &ast.String{Meta: fm(), Value: "lit"}
		}
		return &ast.Ident{Meta: fm(), Value: c}
	}
	explicit := nondet.Bool("explicit")
	var e ast.Expression = &ast.InfixExpression{Meta: fm(), Operator: "+", Explicit: explicit, Left: operand("a"), Right: operand("b")}
	if nondet.Bool("three") {
		e = &ast.InfixExpression{Meta: fm(), Operator: "+", Explicit: explicit, Left: e, Right: operand("c")}
	}
	target := []string{"var.s2", "req.http.Out"}[nondet.Choice("target", 2)]
	stmt := &ast.SetStatement{Meta: fm(), Ident: &ast.Ident{Meta: fm(), Value: target}, Operator: &ast.Operator{Meta: fm(), Operator: "="}, Value: e}
	before := p.snap()
	err := i.ProcessSetStatement(stmt)
	nondet.Observe("err", err != nil)
	p.check(i, before, target, "set "+target+" = <concatenation>")
	nondet.Cover("checked")
}
