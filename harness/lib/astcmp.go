// Package astcmp compares falco syntax trees structurally, with explicit type
// switches (no reflection, so that the symbolic engine can run it).  It is the
// oracle helper of C02, C03, C09, C14 and C19 and is written from the property
// statements: what must be equal is every declaration, statement, operator,
// identifier, argument and literal value; what may differ is positions,
// comments and, per mode, the presentational flags listed below.
package astcmp

import (
	"github.com/ysugimoto/falco/v2/ast"
)

// Mode selects what is presentational.
type Mode struct {
	// Codec: "comments, positions and purely presentational flags excepted":
	// InfixExpression.Explicit, String.LongString/Delimiter, IfStatement.Keyword
	// spelling and ReturnStatement.HasParenthesis are not compared.
	Codec bool
	// Format: the documented rewrites of the formatter are normalised:
	// Explicit, else-if keyword spelling, return parentheses, remove -> unset.
	Format bool
	// SortedProps / SortedDecls: property / declaration order is not compared.
	SortedProps bool
	// Literals: compare the source literal of INTEGER / FLOAT nodes too.
	Literals bool
}

var Strict = Mode{Literals: true}
var Codec = Mode{Codec: true, Literals: true}

// Why holds a short description of the first difference found by the last call.
var Why string

func diff(s string) bool { Why = s; return false }

func nilness(a, b bool) (bothNil, ok bool) {
	if a != b {
		return false, false
	}
	return a, true
}

func Ident(a, b *ast.Ident) bool {
	if bn, ok := nilness(a == nil, b == nil); !ok {
		return diff("ident presence")
	} else if bn {
		return true
	}
	if a.Value != b.Value {
		return diff("ident value")
	}
	return true
}

func str(a, b *ast.String, m Mode) bool {
	if bn, ok := nilness(a == nil, b == nil); !ok {
		return diff("string presence")
	} else if bn {
		return true
	}
	if a.Value != b.Value {
		return diff("string value")
	}
	if !m.Codec && !m.Format {
		if a.LongString != b.LongString || a.Delimiter != b.Delimiter {
			return diff("string form")
		}
	}
	return true
}

// Expr compares two expressions.
func Expr(a, b ast.Expression, m Mode) bool {
	if bn, ok := nilness(a == nil, b == nil); !ok {
		return diff("expression presence")
	} else if bn {
		return true
	}
	switch x := a.(type) {
	case *ast.Ident:
		y, ok := b.(*ast.Ident)
		if !ok {
			return diff("kind: ident")
		}
		return Ident(x, y)
	case *ast.String:
		y, ok := b.(*ast.String)
		if !ok {
			return diff("kind: string")
		}
		return str(x, y, m)
	case *ast.IP:
		y, ok := b.(*ast.IP)
		if !ok {
			return diff("kind: ip")
		}
		if x.Value != y.Value {
			return diff("ip value")
		}
		return true
	case *ast.RTime:
		y, ok := b.(*ast.RTime)
		if !ok {
			return diff("kind: rtime")
		}
		if x.Value != y.Value {
			return diff("rtime value")
		}
		return true
	case *ast.Boolean:
		y, ok := b.(*ast.Boolean)
		if !ok {
			return diff("kind: bool")
		}
		if x.Value != y.Value {
			return diff("bool value")
		}
		return true
	case *ast.Integer:
		y, ok := b.(*ast.Integer)
		if !ok {
			return diff("kind: integer")
		}
		if x.Value != y.Value {
			return diff("integer value")
		}
		if m.Literals && x.Meta != nil && y.Meta != nil && x.Token.Literal != "" && y.Token.Literal != "" && x.Token.Literal != y.Token.Literal {
			return diff("integer literal")
		}
		return true
	case *ast.Float:
		y, ok := b.(*ast.Float)
		if !ok {
			return diff("kind: float")
		}
		// bit-for-bit, except that any NaN equals any NaN
		if x.Value != y.Value && (x.Value == x.Value || y.Value == y.Value) {
			return diff("float value")
		}
		if m.Literals && x.Meta != nil && y.Meta != nil && x.Token.Literal != "" && y.Token.Literal != "" && x.Token.Literal != y.Token.Literal {
			return diff("float literal")
		}
		return true
	case *ast.GroupedExpression:
		y, ok := b.(*ast.GroupedExpression)
		if !ok {
			return diff("kind: grouped")
		}
		return Expr(x.Right, y.Right, m)
	case *ast.PrefixExpression:
		y, ok := b.(*ast.PrefixExpression)
		if !ok {
			return diff("kind: prefix")
		}
		if x.Operator != y.Operator {
			return diff("prefix operator")
		}
		return Expr(x.Right, y.Right, m)
	case *ast.PostfixExpression:
		y, ok := b.(*ast.PostfixExpression)
		if !ok {
			return diff("kind: postfix")
		}
		if x.Operator != y.Operator {
			return diff("postfix operator")
		}
		return Expr(x.Left, y.Left, m)
	case *ast.InfixExpression:
		y, ok := b.(*ast.InfixExpression)
		if !ok {
			return diff("kind: infix")
		}
		return Infix(x, y, m)
	case *ast.IfExpression:
		y, ok := b.(*ast.IfExpression)
		if !ok {
			return diff("kind: if expression")
		}
		return Expr(x.Condition, y.Condition, m) && Expr(x.Consequence, y.Consequence, m) && Expr(x.Alternative, y.Alternative, m)
	case *ast.FunctionCallExpression:
		y, ok := b.(*ast.FunctionCallExpression)
		if !ok {
			return diff("kind: function call")
		}
		return Ident(x.Function, y.Function) && Exprs(x.Arguments, y.Arguments, m)
	case *ast.BackendProbeObject:
		y, ok := b.(*ast.BackendProbeObject)
		if !ok {
			return diff("kind: probe object")
		}
		return backendProps(x.Values, y.Values, m)
	case *ast.DirectorBackendObject:
		y, ok := b.(*ast.DirectorBackendObject)
		if !ok {
			return diff("kind: director backend object")
		}
		return directorProps(x.Values, y.Values, m)
	case *ast.DirectorProperty:
		y, ok := b.(*ast.DirectorProperty)
		if !ok {
			return diff("kind: director property")
		}
		return Ident(x.Key, y.Key) && Expr(x.Value, y.Value, m)
	}
	return diff("unknown expression kind")
}

func Infix(x, y *ast.InfixExpression, m Mode) bool {
	if bn, ok := nilness(x == nil, y == nil); !ok {
		return diff("infix presence")
	} else if bn {
		return true
	}
	if x.Operator != y.Operator {
		return diff("infix operator")
	}
	if !m.Codec && !m.Format && x.Explicit != y.Explicit {
		return diff("infix explicit flag")
	}
	return Expr(x.Left, y.Left, m) && Expr(x.Right, y.Right, m)
}

func Exprs(a, b []ast.Expression, m Mode) bool {
	if len(a) != len(b) {
		return diff("expression list length")
	}
	for i := range a {
		if !Expr(a[i], b[i], m) {
			return false
		}
	}
	return true
}

func backendProps(a, b []*ast.BackendProperty, m Mode) bool {
	if len(a) != len(b) {
		return diff("backend property count")
	}
	if m.SortedProps {
		for i := range a {
			found := false
			for j := range b {
				if a[i].Key.Value == b[j].Key.Value {
					if !Expr(a[i].Value, b[j].Value, m) {
						return false
					}
					found = true
				}
			}
			if !found {
				return diff("backend property missing")
			}
		}
		return true
	}
	for i := range a {
		if !Ident(a[i].Key, b[i].Key) || !Expr(a[i].Value, b[i].Value, m) {
			return false
		}
	}
	return true
}

func directorProps(a, b []*ast.DirectorProperty, m Mode) bool {
	if len(a) != len(b) {
		return diff("director property count")
	}
	for i := range a {
		if !Ident(a[i].Key, b[i].Key) || !Expr(a[i].Value, b[i].Value, m) {
			return false
		}
	}
	return true
}

func Block(a, b *ast.BlockStatement, m Mode) bool {
	if bn, ok := nilness(a == nil, b == nil); !ok {
		return diff("block presence")
	} else if bn {
		return true
	}
	return Stmts(a.Statements, b.Statements, m)
}

func Stmts(a, b []ast.Statement, m Mode) bool {
	if len(a) != len(b) {
		return diff("statement count")
	}
	for i := range a {
		if !Stmt(a[i], b[i], m) {
			return false
		}
	}
	return true
}

func op(a, b *ast.Operator) bool {
	if bn, ok := nilness(a == nil, b == nil); !ok {
		return diff("operator presence")
	} else if bn {
		return true
	}
	if a.Operator != b.Operator {
		return diff("assignment operator")
	}
	return true
}

func ifKeyword(k string) string {
	switch k {
	case "elseif", "elsif", "else if":
		return "else if"
	}
	return k
}

func If(x, y *ast.IfStatement, m Mode) bool {
	if bn, ok := nilness(x == nil, y == nil); !ok {
		return diff("if presence")
	} else if bn {
		return true
	}
	if m.Codec || m.Format {
		if ifKeyword(x.Keyword) != ifKeyword(y.Keyword) {
			return diff("if keyword")
		}
	} else if x.Keyword != y.Keyword {
		return diff("if keyword spelling")
	}
	if !Expr(x.Condition, y.Condition, m) || !Block(x.Consequence, y.Consequence, m) {
		return false
	}
	if len(x.Another) != len(y.Another) {
		return diff("else-if count")
	}
	for i := range x.Another {
		if !If(x.Another[i], y.Another[i], m) {
			return false
		}
	}
	if bn, ok := nilness(x.Alternative == nil, y.Alternative == nil); !ok {
		return diff("else presence")
	} else if !bn {
		return Block(x.Alternative.Consequence, y.Alternative.Consequence, m)
	}
	return true
}

// Stmt compares two statements or declarations.
func Stmt(a, b ast.Statement, m Mode) bool {
	if bn, ok := nilness(a == nil, b == nil); !ok {
		return diff("statement presence")
	} else if bn {
		return true
	}
	if m.Format {
		// remove -> unset is a documented rewrite
		if r, ok := a.(*ast.RemoveStatement); ok {
			a = &ast.UnsetStatement{Meta: r.Meta, Ident: r.Ident}
		}
		if r, ok := b.(*ast.RemoveStatement); ok {
			b = &ast.UnsetStatement{Meta: r.Meta, Ident: r.Ident}
		}
	}
	switch x := a.(type) {
	case *ast.AclDeclaration:
		y, ok := b.(*ast.AclDeclaration)
		if !ok {
			return diff("kind: acl")
		}
		if !Ident(x.Name, y.Name) {
			return false
		}
		if len(x.CIDRs) != len(y.CIDRs) {
			return diff("acl entry count")
		}
		for i := range x.CIDRs {
			p, q := x.CIDRs[i], y.CIDRs[i]
			pi := p.Inverse != nil && p.Inverse.Value
			qi := q.Inverse != nil && q.Inverse.Value
			if pi != qi {
				return diff("acl negation")
			}
			if p.IP.Value != q.IP.Value {
				return diff("acl address")
			}
			if bn, ok := nilness(p.Mask == nil, q.Mask == nil); !ok {
				return diff("acl mask presence")
			} else if !bn && p.Mask.Value != q.Mask.Value {
				return diff("acl mask")
			}
		}
		return true
	case *ast.BackendDeclaration:
		y, ok := b.(*ast.BackendDeclaration)
		if !ok {
			return diff("kind: backend")
		}
		return Ident(x.Name, y.Name) && backendProps(x.Properties, y.Properties, m)
	case *ast.DirectorDeclaration:
		y, ok := b.(*ast.DirectorDeclaration)
		if !ok {
			return diff("kind: director")
		}
		return Ident(x.Name, y.Name) && Ident(x.DirectorType, y.DirectorType) && Exprs(x.Properties, y.Properties, m)
	case *ast.PenaltyboxDeclaration:
		y, ok := b.(*ast.PenaltyboxDeclaration)
		if !ok {
			return diff("kind: penaltybox")
		}
		return Ident(x.Name, y.Name) && Block(x.Block, y.Block, m)
	case *ast.RatecounterDeclaration:
		y, ok := b.(*ast.RatecounterDeclaration)
		if !ok {
			return diff("kind: ratecounter")
		}
		return Ident(x.Name, y.Name) && Block(x.Block, y.Block, m)
	case *ast.SubroutineDeclaration:
		y, ok := b.(*ast.SubroutineDeclaration)
		if !ok {
			return diff("kind: subroutine")
		}
		if !Ident(x.Name, y.Name) || !Ident(x.ReturnType, y.ReturnType) {
			return false
		}
		if len(x.Parameters) != len(y.Parameters) {
			return diff("subroutine parameter count")
		}
		for i := range x.Parameters {
			if !Ident(x.Parameters[i].Type, y.Parameters[i].Type) || !Ident(x.Parameters[i].Name, y.Parameters[i].Name) {
				return false
			}
		}
		return Block(x.Block, y.Block, m)
	case *ast.TableDeclaration:
		y, ok := b.(*ast.TableDeclaration)
		if !ok {
			return diff("kind: table")
		}
		if !Ident(x.Name, y.Name) || !Ident(x.ValueType, y.ValueType) {
			return false
		}
		if len(x.Properties) != len(y.Properties) {
			return diff("table item count")
		}
		for i := range x.Properties {
			if !str(x.Properties[i].Key, y.Properties[i].Key, m) || !Expr(x.Properties[i].Value, y.Properties[i].Value, m) {
				return false
			}
		}
		return true
	case *ast.AddStatement:
		y, ok := b.(*ast.AddStatement)
		if !ok {
			return diff("kind: add")
		}
		return Ident(x.Ident, y.Ident) && op(x.Operator, y.Operator) && Expr(x.Value, y.Value, m)
	case *ast.SetStatement:
		y, ok := b.(*ast.SetStatement)
		if !ok {
			return diff("kind: set")
		}
		return Ident(x.Ident, y.Ident) && op(x.Operator, y.Operator) && Expr(x.Value, y.Value, m)
	case *ast.UnsetStatement:
		y, ok := b.(*ast.UnsetStatement)
		if !ok {
			return diff("kind: unset")
		}
		return Ident(x.Ident, y.Ident)
	case *ast.RemoveStatement:
		y, ok := b.(*ast.RemoveStatement)
		if !ok {
			return diff("kind: remove")
		}
		return Ident(x.Ident, y.Ident)
	case *ast.BlockStatement:
		y, ok := b.(*ast.BlockStatement)
		if !ok {
			return diff("kind: block")
		}
		return Block(x, y, m)
	case *ast.BreakStatement:
		if _, ok := b.(*ast.BreakStatement); !ok {
			return diff("kind: break")
		}
		return true
	case *ast.FallthroughStatement:
		if _, ok := b.(*ast.FallthroughStatement); !ok {
			return diff("kind: fallthrough")
		}
		return true
	case *ast.EsiStatement:
		if _, ok := b.(*ast.EsiStatement); !ok {
			return diff("kind: esi")
		}
		return true
	case *ast.RestartStatement:
		if _, ok := b.(*ast.RestartStatement); !ok {
			return diff("kind: restart")
		}
		return true
	case *ast.CallStatement:
		y, ok := b.(*ast.CallStatement)
		if !ok {
			return diff("kind: call")
		}
		return Ident(x.Subroutine, y.Subroutine) && Exprs(x.Arguments, y.Arguments, m)
	case *ast.CaseStatement:
		y, ok := b.(*ast.CaseStatement)
		if !ok {
			return diff("kind: case")
		}
		return Case(x, y, m)
	case *ast.DeclareStatement:
		y, ok := b.(*ast.DeclareStatement)
		if !ok {
			return diff("kind: declare")
		}
		return Ident(x.Name, y.Name) && Ident(x.ValueType, y.ValueType) && Expr(x.Value, y.Value, m)
	case *ast.ErrorStatement:
		y, ok := b.(*ast.ErrorStatement)
		if !ok {
			return diff("kind: error")
		}
		return Expr(x.Code, y.Code, m) && Expr(x.Argument, y.Argument, m)
	case *ast.FunctionCallStatement:
		y, ok := b.(*ast.FunctionCallStatement)
		if !ok {
			return diff("kind: function call statement")
		}
		return Ident(x.Function, y.Function) && Exprs(x.Arguments, y.Arguments, m)
	case *ast.GotoStatement:
		y, ok := b.(*ast.GotoStatement)
		if !ok {
			return diff("kind: goto")
		}
		return Ident(x.Destination, y.Destination)
	case *ast.GotoDestinationStatement:
		y, ok := b.(*ast.GotoDestinationStatement)
		if !ok {
			return diff("kind: goto destination")
		}
		return Ident(x.Name, y.Name)
	case *ast.IfStatement:
		y, ok := b.(*ast.IfStatement)
		if !ok {
			return diff("kind: if")
		}
		return If(x, y, m)
	case *ast.ImportStatement:
		y, ok := b.(*ast.ImportStatement)
		if !ok {
			return diff("kind: import")
		}
		return Ident(x.Name, y.Name)
	case *ast.IncludeStatement:
		y, ok := b.(*ast.IncludeStatement)
		if !ok {
			return diff("kind: include")
		}
		return str(x.Module, y.Module, m)
	case *ast.LogStatement:
		y, ok := b.(*ast.LogStatement)
		if !ok {
			return diff("kind: log")
		}
		return Expr(x.Value, y.Value, m)
	case *ast.ReturnStatement:
		y, ok := b.(*ast.ReturnStatement)
		if !ok {
			return diff("kind: return")
		}
		if !m.Codec && !m.Format && x.HasParenthesis != y.HasParenthesis {
			return diff("return parenthesis")
		}
		return Expr(x.ReturnExpression, y.ReturnExpression, m)
	case *ast.SwitchStatement:
		y, ok := b.(*ast.SwitchStatement)
		if !ok {
			return diff("kind: switch")
		}
		if bn, ok := nilness(x.Control == nil, y.Control == nil); !ok {
			return diff("switch control presence")
		} else if !bn && !Expr(x.Control.Expression, y.Control.Expression, m) {
			return false
		}
		if x.Default != y.Default {
			return diff("switch default index")
		}
		if len(x.Cases) != len(y.Cases) {
			return diff("switch case count")
		}
		for i := range x.Cases {
			if !Case(x.Cases[i], y.Cases[i], m) {
				return false
			}
		}
		return true
	case *ast.SyntheticStatement:
		y, ok := b.(*ast.SyntheticStatement)
		if !ok {
			return diff("kind: synthetic")
		}
		return Expr(x.Value, y.Value, m)
	case *ast.SyntheticBase64Statement:
		y, ok := b.(*ast.SyntheticBase64Statement)
		if !ok {
			return diff("kind: synthetic.base64")
		}
		return Expr(x.Value, y.Value, m)
	}
	return diff("unknown statement kind")
}

func Case(x, y *ast.CaseStatement, m Mode) bool {
	if x.Fallthrough != y.Fallthrough {
		return diff("case fallthrough flag")
	}
	if !Infix(x.Test, y.Test, m) {
		return false
	}
	return Stmts(x.Statements, y.Statements, m)
}
