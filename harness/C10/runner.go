package tester

//verif:pkg tester
//verif:intercept github.com/ysugimoto/falco/v2/resolver.NewFileResolvers trFileResolvers
//verif:intercept github.com/ysugimoto/falco/v2/tester.findTestTargetFiles trFindFiles
//verif:intercept github.com/ysugimoto/falco/v2/interpreter.setupFastlyHeaders trFastlyHeaders

import (
	"errors"
	"strings"

	"github.com/ysugimoto/falco/v2/ast"
	"github.com/ysugimoto/falco/v2/config"
	"github.com/ysugimoto/falco/v2/interpreter/context"
	ihttp "github.com/ysugimoto/falco/v2/interpreter/http"
	"github.com/ysugimoto/falco/v2/resolver"
	"github.com/ysugimoto/falco/v2/zz_verif/nondet"
)

// C10-a: test-runner verdicts are faithful.  The real Tester.run (its worker
// goroutine, channels and select run under the engine's scheduler), the real
// parser with the testing syntax, getTestMetadata, setupInterpreter, the real
// interpreter (TestProcessInit, ProcessTestSubroutine) and the real assertion
// functions run on a test file made of K test subroutines whose kind is
// symbolic: a holding assertion, a failing assertion, a runtime error, @skip,
// two scopes, grouped in a describe block.  Only the file lookup is stubbed.

type trResolver struct{ name, data string }

func (r *trResolver) MainVCL() (*resolver.VCL, error) { return &resolver.VCL{Name: r.name, Data: r.data}, nil }
func (r *trResolver) Resolve(stmt *ast.IncludeStatement) (*resolver.VCL, error) {
	return nil, errors.New("no include")
}
func (r *trResolver) Name() string           { return "" }
func (r *trResolver) IncludePaths() []string { return nil }

var trTestFile string

func trFileResolvers(main string, includePaths []string) ([]resolver.Resolver, error) {
	return []resolver.Resolver{&trResolver{"main.test.vcl", trTestFile}}, nil
}

// the Fastly-FF header is an HMAC (crypto is outside the interpreted set): a fixed value
func trFastlyHeaders(req *ihttp.Request) { req.Header.Set("Fastly-FF", "stub") }

func trFindFiles(root, filter string) ([]string, error) { return []string{"main.test.vcl"}, nil }

const trMainVCL = "backend b {\n  .host = \"example.com\";\n}\nsub vcl_recv {\n  #FASTLY RECV\n  set req.http.X = \"v\";\n  set req.http.Empty = \"\";\n  if (req.http.Nope) {\n    set req.http.R = \"if\";\n  } else if (req.http.Empty) {\n    set req.http.R = \"elseif\";\n  } else if (req.http.X) {\n    set req.http.R = \"third\";\n  } else {\n    set req.http.R = \"else\";\n  }\n  return(lookup);\n}\nsub vcl_deliver {\n  #FASTLY DELIVER\n  set resp.http.Y = \"w\";\n}\n"

var TrKinds = []string{"pass", "fail", "runtime-error", "skip", "two-scopes-pass", "two-scopes-fail", "two-asserts-pass", "pass-then-fail"}

// trTest renders test k of the given kind; returns the text and, per scope run, whether it must be reported failed / skipped
func trTest(k int, kind string) (src string, failed []bool, skipped []bool) {
	name := "test_" + string(rune('a'+k))
	scope := "// @scope: recv\n"
	body := ""
	switch kind {
	case "pass":
		body, failed, skipped = "  assert.equal(\"a\", \"a\");\n", []bool{false}, []bool{false}
	case "fail":
		body, failed, skipped = "  assert.equal(\"a\", \"b\");\n", []bool{true}, []bool{false}
	case "runtime-error":
		body, failed, skipped = "  call no_such_subroutine;\n", []bool{true}, []bool{false}
	case "skip":
		scope = "// @scope: recv\n// @skip\n"
		body, failed, skipped = "  assert.equal(\"a\", \"b\");\n", []bool{false}, []bool{true}
	case "two-scopes-pass":
		scope = "// @scope: recv, deliver\n"
		body, failed, skipped = "  assert.true(true);\n", []bool{false, false}, []bool{false, false}
	case "two-scopes-fail":
		scope = "// @scope: recv, deliver\n"
		body, failed, skipped = "  assert.true(false);\n", []bool{true, true}, []bool{false, false}
	case "two-asserts-pass":
		body, failed, skipped = "  assert.equal(\"a\", \"a\");\n  assert.not_equal(\"a\", \"b\");\n", []bool{false}, []bool{false}
	default: // pass-then-fail
		body, failed, skipped = "  assert.equal(\"a\", \"a\");\n  assert.equal(\"a\", \"b\");\n", []bool{true}, []bool{false}
	}
	return scope + "sub " + name + " {\n" + body + "}\n", failed, skipped
}

func VerifTestVerdicts() {
	n := nondet.Param("K")
	grouped := nondet.Bool("grouped")
	var sb strings.Builder
	var wantFailed, wantSkipped []bool
	names := []string{"k0", "k1", "k2", "k3"}
	for k := 0; k < n; k++ {
		src, f, s := trTest(k, TrKinds[nondet.Choice(names[k], nondet.Param("KINDS"))])
		sb.WriteString(src)
		wantFailed = append(wantFailed, f...)
		wantSkipped = append(wantSkipped, s...)
	}
	trTestFile = sb.String()
	if grouped {
		trTestFile = "describe group {\n" + trTestFile + "}\n"
	}
	t := New(&config.TestConfig{}, []context.Option{context.WithResolver(&trResolver{"main.vcl", trMainVCL})})
	f, err := t.Run("main.vcl")
	if err != nil {
		nondet.Debug("Run: " + err.Error())
	}
	nondet.Assert(err == nil, "the test runner fails on a well-formed test file")
	if err != nil {
		return
	}
	var cases []*TestCase
	for _, r := range f.Results {
		cases = append(cases, r.Cases...)
	}
	nondet.Observe("cases", len(cases), f.Statistics.Fails, f.Statistics.Skips)
	nondet.Assert(len(cases) == len(wantFailed), "the number of reported cases is not the number of (test x scope) runs")
	if len(cases) != len(wantFailed) {
		return
	}
	nf, ns, np := 0, 0, 0
	for k, c := range cases {
		nondet.Assert((c.Error != nil) == wantFailed[k], "a test is not reported failed exactly when an assertion fails or a runtime error is raised")
		nondet.Assert(c.Skip == wantSkipped[k], "a test is not reported skipped exactly when it is marked @skip")
		switch {
		case c.Skip:
			ns++
		case c.Error != nil:
			nf++
		default:
			np++
		}
	}
	nondet.Assert(np+nf+ns == len(cases), "passed + failed + skipped differs from the number of tests run")
	// (Statistics.Fails counts failed assertions as well as failed tests, so only its sign and the skip counter are compared)
	nondet.Assert((f.Statistics.Fails > 0) == (nf > 0) && f.Statistics.Skips == ns, "the summary counters contradict the reported cases")
	// what falco test exits with (cmd/falco runTest): non-zero iff Statistics.Fails > 0
	anyFailed := false
	for _, x := range wantFailed {
		anyFailed = anyFailed || x
	}
	nondet.Assert((f.Statistics.Fails > 0) == anyFailed, "the exit status would not be non-zero exactly when a test failed")
	allPassed := true
	for _, r := range f.Results {
		allPassed = allPassed && r.IsPassed()
	}
	nondet.Assert(allPassed == !anyFailed, "TestResult.IsPassed disagrees with the cases")
	nondet.Cover("checked")
}

// ---- C10-b/c: coverage measurement and test order do not change verdicts

var TrIsoKinds = []string{"pass", "fail", "mutate", "observe", "call-main", "branchy", "mutate-url", "observe-url"}

func trIsoTest(k int, kind string) string {
	name := "test_" + string(rune('a'+k))
	body := ""
	switch kind {
	case "pass":
		body = "  assert.equal(\"a\", \"a\");\n"
	case "fail":
		body = "  assert.equal(\"a\", \"b\");\n"
	case "mutate": // writes state that another test could observe if tests were not isolated
		body = "  set req.http.Shared = \"1\";\n  assert.equal(req.http.Shared, \"1\");\n"
	case "observe":
		body = "  assert.is_notset(req.http.Shared);\n"
	case "mutate-url": // the request line is request state too
		body = "  set req.url = \"/changed?x=1\";\n  assert.equal(req.url, \"/changed?x=1\");\n"
	case "observe-url":
		body = "  assert.not_equal(req.url, \"/changed?x=1\");\n"
	case "call-main": // runs the main VCL's vcl_recv: the code that coverage instruments (a set-but-empty header is true in an else-if condition)
		body = "  testing.call_subroutine(\"vcl_recv\");\n  assert.equal(req.http.X, \"v\");\n  assert.equal(req.http.R, \"elseif\");\n  assert.state(lookup);\n"
	default: // branchy: if / else and switch in the test itself
		body = "  declare local var.s STRING;\n  set var.s = \"a\";\n  if (var.s == \"a\") {\n    set var.s = \"b\";\n  } else {\n    set var.s = \"c\";\n  }\n  switch (var.s) {\n  case \"b\":\n    set var.s = \"d\";\n    break;\n  default:\n    set var.s = \"e\";\n    break;\n  }\n  assert.equal(var.s, \"d\");\n"
	}
	return "// @scope: recv\nsub " + name + " {\n" + body + "}\n"
}

func trVerdicts(file string, coverage bool) (map[string]bool, bool) {
	trTestFile = file
	t := New(&config.TestConfig{Coverage: coverage}, []context.Option{context.WithResolver(&trResolver{"main.vcl", trMainVCL})})
	f, err := t.Run("main.vcl")
	if err != nil {
		return nil, false
	}
	out := map[string]bool{}
	for _, r := range f.Results {
		for _, c := range r.Cases {
			out[c.Name] = c.Error != nil
		}
	}
	return out, true
}

func VerifCoverageAndOrder() {
	k0 := TrIsoKinds[nondet.Choice("k0", len(TrIsoKinds))]
	k1 := TrIsoKinds[nondet.Choice("k1", len(TrIsoKinds))]
	a, b := trIsoTest(0, k0), trIsoTest(1, k1)
	base, ok := trVerdicts(a+b, false)
	nondet.Assert(ok, "the test runner fails on a well-formed test file")
	if !ok {
		return
	}
	wantFail := func(kind string) bool { return kind == "fail" }
	nondet.Assert(base["test_a"] == wantFail(k0) && base["test_b"] == wantFail(k1), "an ungrouped test's verdict is not the verdict of its own assertions (state leaks between tests?)")
	swapped, ok := trVerdicts(b+a, false)
	nondet.Assert(ok && swapped["test_a"] == base["test_a"] && swapped["test_b"] == base["test_b"], "the verdict of an ungrouped test depends on the order of the tests in the file")
	alone, ok := trVerdicts(a, false)
	nondet.Assert(ok && alone["test_a"] == base["test_a"], "the verdict of an ungrouped test depends on which other tests are in the file")
	cov, ok := trVerdicts(a+b, true)
	nondet.Observe("verdicts", base["test_a"], base["test_b"], ok)
	nondet.Assert(ok && cov["test_a"] == base["test_a"] && cov["test_b"] == base["test_b"], "switching coverage measurement on changes a test's verdict")
	nondet.Cover("checked")
}
