package variable

//verif:pkg interpreter/variable

import (
	ghttp "net/http"
	"net/url"
	"strings"

	"github.com/ysugimoto/falco/v2/interpreter/context"
	ihttp "github.com/ysugimoto/falco/v2/interpreter/http"
	"github.com/ysugimoto/falco/v2/interpreter/value"
	"github.com/ysugimoto/falco/v2/zz_verif/nondet"
)

// C17: header variables obey store laws.  A history of H operations (set,
// set-to-not-set, unset, add, +=) over mixed-case spellings of two header
// names and symbolic values runs through the real scope variables of the
// object OBJ; every read is compared with a reference store keyed by the
// lower-cased name.

type hRef struct {
	vals     []string
	assigned bool
}

func (r *hRef) read() (string, bool) { // value, notset
	first := ""
	if len(r.vals) > 0 {
		first = r.vals[0]
	}
	if first == "" {
		return "", !r.assigned
	}
	return first, false
}

var hSpell = [][]string{{"Foo", "foo", "FOO", "fOo"}, {"X-Bar", "x-bar", "X-BAR", "x-bAR"}}
var hPrefix = []string{"req.http.", "bereq.http.", "beresp.http.", "obj.http.", "resp.http.", "resp.http."}
var hScopes = []context.Scope{context.RecvScope, context.MissScope, context.FetchScope, context.ErrorScope, context.DeliverScope, context.LogScope}

func hSetup(obj int) (Variable, context.Scope) {
	ctx := context.New()
	req := func() *ihttp.Request {
		return ihttp.WrapRequest(&ghttp.Request{Method: "GET", Header: ghttp.Header{}, URL: &url.URL{Path: "/"}})
	}
	resp := func() *ihttp.Response {
		return ihttp.WrapResponse(&ghttp.Response{StatusCode: 200, Header: ghttp.Header{}})
	}
	ctx.Request = req()
	ctx.BackendRequest = req()
	ctx.BackendResponse = resp()
	ctx.Object = resp()
	ctx.Response = resp()
	ctx.Scope = hScopes[obj]
	switch obj {
	case 0:
		return NewRecvScopeVariables(ctx), ctx.Scope
	case 1:
		return NewMissScopeVariables(ctx), ctx.Scope
	case 2:
		return NewFetchScopeVariables(ctx), ctx.Scope
	case 3:
		return NewErrorScopeVariables(ctx), ctx.Scope
	case 5: // resp is readable and writable in vcl_log as well
		return NewLogScopeVariables(ctx), ctx.Scope
	default:
		return NewDeliverScopeVariables(ctx), ctx.Scope
	}
}

func hValue(n string) string {
	return nondet.StringIn(n, nondet.IntRange(n+"_len", 0, nondet.Param("L")), 0x0a, 0x7e)
}

func hCut(s string) string {
	if i := strings.IndexByte(s, '\n'); i >= 0 {
		return s[:i]
	}
	return s
}

func VerifHeaderStore() {
	obj := nondet.Param("OBJ")
	vars, scope := hSetup(obj)
	ref := []*hRef{{}, {}}
	names := []string{"o0", "o1", "o2", "o3"}
	for k := 0; k < nondet.Param("H"); k++ {
		n := names[k]
		base := nondet.Choice(n+"_base", 2)
		name := hPrefix[obj] + hSpell[base][nondet.Choice(n+"_spell", 4)]
		r := ref[base]
		var err error
		switch nondet.Choice(n+"_op", 5) {
		case 0: // set
			v := hValue(n + "_v")
			err = vars.Set(scope, name, "=", &value.String{Value: v})
			r.vals, r.assigned = []string{hCut(v)}, true
		case 1: // set to a not-set value
			err = vars.Set(scope, name, "=", &value.String{IsNotSet: true})
			r.vals, r.assigned = nil, false
		case 2: // unset
			err = vars.Unset(scope, name)
			r.vals, r.assigned = nil, false
		case 3: // add (a non-empty value without line feed)
			v := nondet.StringIn(n+"_a", 1, 0x21, 0x7e)
			err = vars.Add(scope, name, &value.String{Value: v})
			r.vals = append(r.vals, v)
		default: // +=
			v := hValue(n + "_v")
			cur, _ := r.read()
			err = vars.Set(scope, name, "+=", &value.String{Value: v})
			r.vals, r.assigned = []string{hCut(cur + v)}, true
		}
		nondet.Assert(err == nil, "a header operation on a writable object fails")
		if err != nil {
			return
		}
	}
	// read both names back under another spelling
	sp := nondet.Choice("readspell", 4)
	for b := 0; b < 2; b++ {
		rn := hPrefix[obj] + hSpell[b][(sp+b)%4]
		got, gerr := vars.Get(scope, rn)
		nondet.Assert(gerr == nil, "reading a header fails")
		if gerr != nil {
			return
		}
		s, ok := got.(*value.String)
		nondet.Assert(ok, "a header does not read as STRING")
		if !ok {
			return
		}
		wantV, wantNS := ref[b].read()
		nondet.Assert(s.IsNotSet == wantNS, "the set / not-set state of a header differs from the store law (case-insensitive name, last write wins)")
		if !wantNS {
			nondet.Assert(s.Value == wantV, "a header does not read back the value written (up to the first line feed)")
		}
	}
	nondet.Cover("checked")
}

// ---- sub-fields (name:key).  Keys, values and spellings are chosen
// symbolically from small alphabets of exemplars (the sub-field code is a
// regular-expression rewrite of the header text, which runs on concrete
// strings); the values include separators, spaces, quotes, '=' and tokens
// that equal another key, so that a value leaking into the key space shows.

var hKeys = []string{"beta", "gamma", "right"}
var hFieldValues = []string{"1", "left,right", "a b", "a,gamma", "q\"t", "x=y", "", "p;q"}

type hField struct{ key, val string }

func VerifSubfields() {
	obj := nondet.Param("OBJ")
	vars, scope := hSetup(obj)
	nv := nondet.Param("NV")
	var ref []hField // the sub-fields of header X-List, in order
	other, otherSet := "", false
	find := func(k string) int {
		for i, f := range ref {
			if f.key == k {
				return i
			}
		}
		return -1
	}
	names := []string{"o0", "o1", "o2", "o3"}
	for k := 0; k < nondet.Param("H"); k++ {
		n := names[k]
		hname := hPrefix[obj] + []string{"X-List", "x-list"}[nondet.Choice(n+"_spell", 2)]
		key := hKeys[nondet.Choice(n+"_key", len(hKeys))]
		var err error
		switch nondet.Choice(n+"_op", 3) {
		case 0: // set a sub-field
			v := hFieldValues[nondet.Choice(n+"_val", nv)]
			err = vars.Set(scope, hname+":"+key, "=", &value.String{Value: v})
			if i := find(key); i >= 0 {
				ref = append(ref[:i:i], ref[i+1:]...)
			}
			ref = append(ref, hField{key, v})
		case 1: // unset a sub-field
			err = vars.Unset(scope, hname+":"+key)
			if i := find(key); i >= 0 {
				ref = append(ref[:i:i], ref[i+1:]...)
			}
		default: // write another header
			other, otherSet = hFieldValues[nondet.Choice(n+"_val", nv)], true
			err = vars.Set(scope, hPrefix[obj]+"Other", "=", &value.String{Value: other})
		}
		nondet.Assert(err == nil, "a sub-field operation on a writable object fails")
		if err != nil {
			return
		}
	}
	// read every key, and the other header
	for _, key := range hKeys {
		got, gerr := vars.Get(scope, hPrefix[obj]+"X-LIST:"+key)
		nondet.Assert(gerr == nil, "reading a sub-field fails")
		if gerr != nil {
			return
		}
		s, ok := got.(*value.String)
		nondet.Assert(ok, "a sub-field does not read as STRING")
		if !ok {
			return
		}
		i := find(key)
		nondet.Observe("field", key, s.Value, s.IsNotSet, i)
		if i < 0 {
			nondet.Assert(s.IsNotSet, "a sub-field that was never written, or was removed, does not read as not set")
		} else {
			nondet.Assert(!s.IsNotSet && s.Value == ref[i].val, "a sub-field does not read back the value written to it")
		}
	}
	got, gerr := vars.Get(scope, hPrefix[obj]+"other")
	nondet.Assert(gerr == nil, "reading a header fails")
	if gerr != nil {
		return
	}
	if s, ok := got.(*value.String); ok {
		if otherSet {
			nondet.Assert(!s.IsNotSet && s.Value == other, "a sub-field operation changes another header")
		} else {
			nondet.Assert(s.IsNotSet, "a sub-field operation creates another header")
		}
	}
	nondet.Cover("checked")
}
