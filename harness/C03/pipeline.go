package formatter

//verif:pkg formatter
//verif:overlay zz_verif/astcmp/astcmp.go=harness/lib/astcmp.go

import (
	"io"
	"strings"

	"github.com/ysugimoto/falco/v2/ast"
	"github.com/ysugimoto/falco/v2/config"
	"github.com/ysugimoto/falco/v2/lexer"
	"github.com/ysugimoto/falco/v2/parser"
	"github.com/ysugimoto/falco/v2/token"
	"github.com/ysugimoto/falco/v2/zz_verif/astcmp"
	"github.com/ysugimoto/falco/v2/zz_verif/nondet"
)

// The formatter pipeline with a fully symbolic configuration (C03, C14, C15):
// parse -> Format -> parse -> Format on skeleton program P.  One path of the
// exploration covers a cube of flags and an interval of line widths.

func fpConf() *config.FormatConfig {
	iw := []int{2, 4, 0, 1, 8}
	tw := []int{1, 4, 0, 2, 8}
	nw := nondet.Param("W") // number of indent / trailing-comment widths explored (they feed strings.Repeat: each value is a path)
	if nondet.ParamOr("PIN", 0) == 1 {
		// reduced configuration cube for the path-heavy templates of the quick tier: layout options that
		// multiply paths are pinned to their defaults, the options that decide where comments go stay symbolic
		return &config.FormatConfig{
			IndentWidth: 2, TrailingCommentWidth: 1, IndentStyle: "space", LineWidth: 120,
			CommentStyle:            nondet.Enum("commentstyle", []string{"none", "slash", "sharp"}),
			ElseIf:                  nondet.Bool("elseif"),
			AlwaysNextLineElseIf:    nondet.Bool("nextline"),
			BreakCompoundConditions: nondet.Bool("breakcond"),
			IndentCaseLabels:        nondet.Bool("caseindent"),
			ShouldUseUnset:          nondet.Bool("unset"),
			SortDeclaration:         nondet.Bool("sortdecl"),
			SortDeclarationProperty: nondet.Bool("sortprop"),
		}
	}
	return &config.FormatConfig{
		IndentWidth:                iw[nondet.Choice("indentwidth", nw)],
		TrailingCommentWidth:       tw[nondet.Choice("trailwidth", nw)],
		IndentStyle:                nondet.Enum("indentstyle", []string{"space", "tab"}),
		CommentStyle:               nondet.Enum("commentstyle", []string{"none", "slash", "sharp"}),
		LineWidth:                  nondet.Int("linewidth"),
		ExplicitStringConcat:       nondet.Bool("explicit"),
		SortDeclarationProperty:    nondet.Bool("sortprop"),
		AlignDeclarationProperty:   nondet.Bool("alignprop"),
		ElseIf:                     nondet.Bool("elseif"),
		AlwaysNextLineElseIf:       nondet.Bool("nextline"),
		ReturnStatementParenthesis: nondet.Bool("retparen"),
		SortDeclaration:            nondet.Bool("sortdecl"),
		AlignTrailingComment:       nondet.Bool("aligntrail"),
		ShouldUseUnset:             nondet.Bool("unset"),
		IndentCaseLabels:           nondet.Bool("caseindent"),
		BreakCompoundConditions:    nondet.Bool("breakcond"),
	}
}

func fpParse(src string) (*ast.VCL, error) {
	return parser.New(lexer.NewFromString(src)).ParseVCL()
}

func fpFormat(vcl *ast.VCL, c *config.FormatConfig) (out string, ok bool) {
	r := New(c).Format(vcl)
	if r == nil {
		return "", false
	}
	b, err := io.ReadAll(r)
	if err != nil {
		return "", false
	}
	return string(b), true
}

// fpComments lists the comment texts of a source in order, with the marker
// normalised away (the configured comment style may rewrite # <-> //).
func fpComments(src string) []string {
	var cs []string
	l := lexer.NewFromString(src)
	for {
		t := l.NextToken()
		if t.Type == token.EOF {
			return cs
		}
		if t.Type == token.COMMENT {
			s := t.Literal
			switch {
			case strings.HasPrefix(s, "#FASTLY"):
				s = "M" + s // a #FASTLY macro is recognised by the linter and the simulator by this exact prefix: it keeps its marker under every comment_style
			case strings.HasPrefix(s, "/*"):
				s = "B" + s
			case strings.HasPrefix(s, "//"):
				s = "L" + strings.TrimLeft(s, "/")
			default:
				s = "L" + strings.TrimLeft(s, "#")
			}
			cs = append(cs, s)
		}
	}
}

// fpSameDecls: same declarations up to order.
func fpSameDecls(a, b []ast.Statement, m astcmp.Mode) bool {
	if len(a) != len(b) {
		return false
	}
	used := make([]bool, len(b))
	for i := range a {
		found := false
		for j := range b {
			if !used[j] && astcmp.Stmt(a[i], b[j], m) {
				used[j], found = true, true
				break
			}
		}
		if !found {
			return false
		}
	}
	return true
}

var FpPrograms = []string{
	// 0: concatenation with a trailing comment, remove
	"sub b {\n  set req.http.A = \"x\" req.http.B \"yyyyyyyyyy\" req.http.C; # t\n  remove req.http.D;\n}\n",
	// 1: backend, table
	"backend z {\n  .port = \"80\"; # p\n  .host = \"h\";\n}\n\ntable t {\n  \"a\": \"b\",\n}\n",
	// 2: functional subroutine returning a comparison
	"sub f BOOL {\n  return a == b;\n}\n",
	// 3: bare error / restart / return
	"sub vcl_recv {\n  error;\n}\n\nsub vcl_hit {\n  restart;\n  return;\n}\n",
	// 4: table with escaped strings and long string values
	"table t STRING {\n  \"a\": \"x%20y\",\n  \"b\": {\"z\"},\n}\n",
	// 5: nested groups in a concatenation
	"sub vcl_recv {\n  set req.http.a = (a (b c) d);\n}\n",
	// 6: switch with fallthrough and default, indent case labels
	"sub vcl_recv {\n  switch (req.http.a) {\n  case \"1\":\n    esi;\n    fallthrough;\n  case ~ \"2\":\n    break;\n  default:\n    break;\n  }\n}\n",
	// 7: acl with negation and masks, comments
	"acl a {\n  \"10.0.0.0\"/8; # net\n  !\"10.1.0.0\"/16;\n  \"::1\";\n}\n",
	// 8: director, penaltybox, ratecounter
	"director d random {\n  .quorum = 50%;\n  { .backend = b; .weight = 1; }\n}\n\npenaltybox p {\n}\n\nratecounter r {\n}\n",
	// 9: declare, set with operators, unset, add, call, log, synthetic, goto
	"sub vcl_deliver {\n  declare local var.a INTEGER;\n  set var.a += 1;\n  set var.a <<= 2;\n  unset resp.http.x;\n  add resp.http.y = \"1\";\n  call f;\n  log \"a\" var.a;\n  goto l;\n  l:\n  synthetic {\"body\"};\n}\n",
	// 10: sort declaration: blank line before the declaration that sorts first
	"sub b {\n}\n\nsub a {\n}\n",
	// 11: long condition that must wrap, else spellings
	"sub vcl_recv {\n  if (req.http.aaaaaaaaaa == \"1111111111\" || req.http.bbbbbbbbbb != \"2222222222\" && !req.http.cccccccccc) {\n    esi;\n  } elsif (req.http.d ~ \"x\") {\n    esi;\n  } elseif (a) {\n    esi;\n  } else {\n    esi;\n  }\n}\n",
	// 12: comments in many places
	"# leading\nsub vcl_recv { # after brace\n  # before statement\n  set req.http.a = \"b\"; // trailing\n  /* block */\n  esi;\n  # before closing brace\n}\n",
	// 13: #FASTLY macro, falco annotations
	"sub vcl_recv {\n  #FASTLY RECV\n  # falco-ignore-next-line\n  set req.http.a = \"b\";\n}\n\n// @scope: recv\nsub custom {\n}\n",
	// 14: function calls, if expression, prefix, numbers, rtime
	"sub vcl_recv {\n  set req.http.a = if(req.http.b, \"x\", \"y\") std.tolower(\"A\" req.http.c);\n  set var.i = -5;\n  set var.f = 1.50;\n  set var.r = 10ms;\n  set var.x = 0x1F;\n  if (!req.http.a) { error 601 \"m\"; }\n}\n",
	// 15: include / import / return with parenthesis and states
	"import x;\ninclude \"m\";\n\nsub vcl_miss {\n  return(fetch);\n}\n\nsub g STRING {\n  return \"a\" \"b\";\n}\n",
	// 16: backend with probe
	"backend b {\n  .host = \"h\";\n  .probe = {\n    .request = \"GET / HTTP/1.1\" \"Host: h\";\n    .interval = 1s;\n  }\n}\n",
	// 17: if / else if with return
	"sub a {\n  if (req.http.A == \"1\" && req.http.B) { return(lookup); } else if (req.http.C) { return (pass); }\n}\n",
	// 18: aligned trailing comments of different lengths
	"sub vcl_recv {\n  set req.http.a = \"1\"; # one\n  set req.http.bbbbbb = \"2\"; # two\n  esi; # three\n}\n",
}

// VerifFormat: for skeleton P and every configuration:
//
//	C03  the output parses and its tree equals the input's up to the documented rewrites;
//	C14  formatting the output again returns it unchanged;
//	C15  the comments of the output are the comments of the input, in order.
func VerifFormat() {
	src := FpPrograms[nondet.Param("P")]
	mode := nondet.Param("MODE") // 0: C03 (meaning preserved), 1: C14 (idempotent), 2: C15 (comments kept)
	c := fpConf()
	nondet.Assume(c.LineWidth >= -1 && c.LineWidth <= 200)
	v1, err := fpParse(src)
	nondet.Assert(err == nil, "the skeleton program does not parse")
	if err != nil {
		return
	}
	o1, ok := fpFormat(v1, c)
	nondet.Assert(ok, "the formatter returns no output for a parseable file")
	if !ok {
		return
	}
	nondet.Observe("out", len(o1))
	v1b, _ := fpParse(src) // an untouched tree of the input (the formatter may reorder its argument)
	v2, err := fpParse(o1)
	nondet.Assert(err == nil, "C03: the formatted text does not parse")
	if err != nil {
		return
	}
	m := astcmp.Mode{Format: true, Literals: true, SortedProps: c.SortDeclarationProperty}
	if mode != 0 {
		// the other properties only need the output to parse
	} else if c.SortDeclaration {
		nondet.Assert(fpSameDecls(v1b.Statements, v2.Statements, m), "C03: formatting changes the program (declarations compared up to order): "+astcmp.Why)
	} else {
		nondet.Assert(astcmp.Stmts(v1b.Statements, v2.Statements, m), "C03: formatting changes the program: "+astcmp.Why)
	}
	if mode == 1 {
		o2, ok := fpFormat(v2, c)
		nondet.Assert(ok && o2 == o1, "C14: formatting the formatter's own output changes it")
	}
	if mode == 2 && !c.SortDeclaration && !c.SortDeclarationProperty {
		a, b := fpComments(src), fpComments(o1)
		nondet.Observe("comments", len(a), len(b))
		same := len(a) == len(b)
		if same {
			for i := range a {
				if a[i] != b[i] {
					same = false
				}
			}
		}
		nondet.Assert(same, "C15: the comments of the formatted text differ from the comments of the input")
	}
	nondet.Cover("checked")
}

// C15: comment placeholders of docs/parser.md.  Each template is the document's
// block for one construct with a concrete instance of the construct; every
// `<comment>` placeholder of the block is an `@` here: `@` alone on a line is an
// own-line placeholder, `@` inside a line an inline one, `@` at the end of a
// line (after `;`, `{`, `}` or `:`) an end-of-line one.

var CmTemplates = []string{
	// declarations
	"acl @ a @ {\n  @\n  ! @ \"10.0.0.0\"/8 @; @\n} @\n",
	"backend @ b @ {\n  @\n  .host @ = @ \"h\" @; @\n  .probe @ = @ {\n    @\n    .interval @ = @ 1s @; @\n  } @\n} @\n",
	"director @ d @ random @ {\n  @\n  .quorum @ = @ 50% @; @\n  {@ .backend @ = @ b @; @} @\n} @\n",
	"table @ t @ STRING @ {\n  @\n  \"k\" @: @ \"v\" @, @\n}\n",
	"sub @ s @ {\n  esi;\n  @\n} @\n",
	"penaltybox @ p @ {\n  @\n} @\n",
	"ratecounter @ r @ {\n  @\n} @\n",
	// statements (inside a subroutine)
	"S@\nadd @ req.http.a @ = @ \"v\" @; @\n",
	"S@\n{\n  esi;\n  @\n} @\n",
	"S@\ncall @ f @; @\n",
	"S@\ndeclare @ local @ var.a @ STRING @; @\n",
	"S@\nerror @ 601 @ \"m\" @; @\n",
	"S@\nesi @; @\n",
	"S@\nstd.collect(@ req.http.a @, \"x\") @; @\n",
	"S@\ngoto @ l @; @\n",
	"S@\nl: @\n",
	"S@\nif @ (@ req.http.a @) @ {\n  esi;\n}\n@\nelse if @ (@ req.http.b @) @ {\n  esi;\n}\n@\nelse @ {\n  esi;\n}\n",
	"@\nimport @ m @; @\n",
	"@\ninclude @ \"m\" @; @\n",
	"S@\nlog @ \"a\" @; @\n",
	"S@\nremove @ req.http.a @; @\n",
	"S@\nrestart @; @\n",
	"S@\nreturn @ (@ lookup @) @; @\n",
	"S@\nset @ req.http.a @ = @ \"v\" @; @\n",
	"S@\nswitch @ (@ req.http.a @) @ {\n  @\n  case @ \"1\" @: @\n    esi;\n    @\n    fallthrough @; @\n  case \"2\":\n    @\n    break @; @\n  default @: @\n    esi;\n    break;\n}\n",
	"S@\nsynthetic @ \"a\" @; @\n",
	"S@\nsynthetic.base64 @ \"a\" @; @\n",
	"S@\nunset @ req.http.a @; @\n",
	// the regular-expression form of case, and a compound condition
	"S@\nswitch (req.http.a) {\n  case @ ~ \"^x\" @: @\n    esi;\n    break;\n  default:\n    esi;\n    break;\n}\n",
	"S@\nif @ (@ req.http.a && req.http.b @) @ {\n  esi;\n}\n",
}

// cmRender fills placeholder number `at` (and `at2` if >= 0) of template t with
// comments and removes the others.  Returns the text and the number of placeholders.
func cmRender(t string, at, at2, style int) (string, int) {
	inSub := strings.HasPrefix(t, "S")
	if inSub {
		t = t[1:]
	}
	var sb strings.Builder
	n := 0
	for i := 0; i < len(t); i++ {
		if t[i] != '@' {
			sb.WriteByte(t[i])
			continue
		}
		k := n
		n++
		ownLine := (i == 0 || t[i-1] == ' ' && lineStartsAt(t, i)) && (i+1 == len(t) || t[i+1] == '\n')
		endOfLine := !ownLine && (i+1 == len(t) || t[i+1] == '\n')
		if k != at && k != at2 {
			if ownLine {
				// drop the whole line
				s := sb.String()
				s = strings.TrimRight(s, " ")
				sb.Reset()
				sb.WriteString(s)
				if i+1 < len(t) {
					i++ // skip the line feed
				}
			}
			continue
		}
		text := "c" + string(rune('0'+k%10)) + string(rune('a'+k/10))
		switch {
		case ownLine || endOfLine:
			switch style {
			case 0:
				sb.WriteString("# " + text)
			case 1:
				sb.WriteString("// " + text)
			default:
				sb.WriteString("/* " + text + " */")
			}
		default:
			sb.WriteString("/* " + text + " */")
		}
	}
	out := sb.String()
	if inSub {
		out = "sub vcl_recv {\n" + out + "}\n"
	}
	return out, n
}

func lineStartsAt(t string, i int) bool {
	for j := i - 1; j >= 0; j-- {
		if t[j] == '\n' {
			return true
		}
		if t[j] != ' ' {
			return false
		}
	}
	return true
}

func cmCount(t string) int { return strings.Count(t, "@") }

// VerifComments: a comment at any one documented placeholder (TWO=1: any two)
// of construct T, in any of the three comment forms, appears exactly once and
// in order in the formatted text, for every configuration.
func VerifComments() {
	t := CmTemplates[nondet.Param("T")]
	n := cmCount(t)
	at := nondet.IntRange("at", 0, n-1)
	at2 := -1
	if nondet.Param("TWO") == 1 {
		at2 = nondet.IntRange("at2", 0, n-1)
		nondet.Assume(at2 > at)
	}
	style := nondet.Choice("style", 3)
	src, _ := cmRender(t, at, at2, style)
	c := fpConf()
	nondet.Assume(c.LineWidth >= -1 && c.LineWidth <= 200)
	v1, err := fpParse(src)
	nondet.Observe("at", at, at2, style, err != nil)
	nondet.Assert(err == nil, "a comment at a documented placeholder makes the program unparseable")
	if err != nil {
		return
	}
	o1, ok := fpFormat(v1, c)
	nondet.Assert(ok, "the formatter returns no output")
	if !ok {
		return
	}
	a, b := fpComments(src), fpComments(o1)
	same := len(a) == len(b)
	if same {
		for i := range a {
			if a[i] != b[i] {
				same = false
			}
		}
	}
	if len(b) < len(a) {
		nondet.Assert(false, "C15: a comment at a documented placeholder is dropped by the formatter")
	}
	if len(b) > len(a) {
		nondet.Assert(false, "C15: a comment at a documented placeholder is printed more than once")
	}
	nondet.Assert(same, "C15: the comments of the formatted text differ from the comments of the input")
	_, err = fpParse(o1)
	nondet.Assert(err == nil, "C03: the formatted text does not parse")
	nondet.Cover("checked")
}

// ---- layout: the same three properties over the layout of the input.  `~`
// is a vertical gap (nothing, or 1, 2 or 4 extra line feeds: blank lines
// between items, statements and declarations, runs of line feeds inside long
// strings and block comments), `^` an optional trailing comment (none, //, #,
// /* */).  Every marker is chosen independently; at most LAYOUTS of them
// differ from the default at a time.

var LyTemplates = []string{
	// 0: table items in groups
	"table t {\n  \"a\": \"1\",^\n~  \"bb\": \"2\",^\n~  \"c\": \"3\",^\n}\n",
	// 1: backend properties and a nested probe
	"backend b {\n  .host = \"h\";^\n~  .port = \"443\";^\n~  .probe = {\n    .interval = 1s;^\n~    .timeout = 2s;^\n  }^\n}\n",
	// 2: acl entries
	"acl a {\n  \"10.0.0.0\"/8;^\n~  !\"10.1.0.0\"/16;^\n~  \"::1\";^\n}\n",
	// 3: statements of a subroutine
	"sub vcl_recv {\n~  set req.http.a = \"1\";^\n~  set req.http.bbb = \"22\";^\n~  esi;^\n~}\n",
	// 4: statements of a switch case
	"sub vcl_recv {\n  switch (req.http.a) {\n  case \"1\":\n    set req.http.a = \"1\";^\n~    set req.http.bbb = \"2\";^\n~    break;\n  default:\n    esi;^\n    break;\n  }^\n}\n",
	// 5: if / else if / else with comments after the closing braces
	"sub vcl_recv {\n  if (req.http.a) {\n    esi;\n  }^\n~  else if (req.http.b) {\n    esi;\n  }^\n~  else {\n    esi;\n  }^\n~  esi;\n}\n",
	// 6: runs of line feeds inside a long string and a block comment
	"sub vcl_recv {\n  set req.http.a = {\"x~y\"};\n  /* c~d */\n  esi;\n}\n",
	// 7: the top level of a file
	"~sub a {\n  esi;\n}^\n~backend b {\n  .host = \"h\";\n}^\n~",
	// 8: director
	"director d random {\n  .quorum = 50%;^\n~  { .backend = b; .weight = 1; }^\n~  { .backend = c; .weight = 2; }^\n}\n",
	// 9: a compound condition over several lines
	"sub vcl_recv {\n  if (req.http.a &&^\n      req.http.b ||^\n      req.http.c) {\n    esi;\n  }^\n}\n",
	// 10: an if without else, a nested block, a return
	"sub vcl_recv {\n  if (req.http.a) {\n~    esi;^\n~  }^\n~  {\n    esi;^\n  }^\n~  return (lookup);^\n}\n",
	// 11: switch case statements that all carry trailing comments of different lengths (alignment groups)
	"sub vcl_recv {\n  switch (req.http.a) {\n  case \"1\":\n    set req.http.a = \"1\"; // t1\n~    set req.http.bbbbbb = \"2\"; // t2\n~    break; // t3\n  default:\n    esi;\n    break;\n  }\n}\n",
	// 12: subroutine statements that all carry trailing comments
	"sub vcl_recv {\n  set req.http.a = \"1\"; // t1\n~  set req.http.bbbbbb = \"22\"; # t2\n~  esi; /* t3 */\n~  if (req.http.a) {\n    esi; // t4\n~    restart; // t5\n  }\n}\n",
	// 13: declaration properties that all carry trailing comments
	"backend b {\n  .host = \"h\"; // t1\n~  .connect_timeout = 1s; // t2\n~  .port = \"443\"; # t3\n}\ntable t {\n  \"a\": \"1\", // t4\n~  \"bbbb\": \"2\", // t5\n}\n",
	// 14: a compound condition with the operators at the beginning of the continuation lines
	"sub vcl_recv {\n  if (req.http.a^\n      && req.http.b^\n      || req.http.c) {\n    esi;\n  }\n}\n",
	// 15: own-line comments between vertical gaps in declaration bodies
	"backend b {\n  .host = \"h\";\n~  # c1\n~  .port = \"443\";\n~  # c2\n~  .probe = {\n    .interval = 1s;\n  }\n}\ntable t {\n  \"a\": \"1\",\n~  # c3\n~  \"b\": \"2\",\n}\nacl a {\n  \"10.0.0.0\"/8;\n~  # c4\n~  \"::1\";\n}\n",
}

func lyRender(t string, max int) string {
	var sb strings.Builder
	used, n := 0, 0
	for i := 0; i < len(t); i++ {
		switch t[i] {
		case '~':
			n++
			c := nondet.Choice("g"+string(rune('a'+n)), 4)
			if c != 0 {
				used++
			}
			sb.WriteString([]string{"", "\n", "\n\n", "\n\n\n\n"}[c])
		case '^':
			n++
			c := nondet.Choice("t"+string(rune('a'+n)), 4)
			if c != 0 {
				used++
			}
			text := "t" + string(rune('a'+n))
			sb.WriteString([]string{"", " // " + text, " # " + text, " /* " + text + " */"}[c])
		default:
			sb.WriteByte(t[i])
		}
		nondet.Assume(used <= max)
	}
	return sb.String()
}

func lyConf() *config.FormatConfig {
	return &config.FormatConfig{
		IndentWidth: 2, TrailingCommentWidth: 1, IndentStyle: "space", LineWidth: 120,
		CommentStyle:               nondet.Enum("commentstyle", []string{"none", "slash", "sharp"}),
		ElseIf:                     nondet.Bool("elseif"),
		AlwaysNextLineElseIf:       nondet.Bool("nextline"),
		BreakCompoundConditions:    nondet.Bool("breakcond"),
		IndentCaseLabels:           nondet.Bool("caseindent"),
		AlignTrailingComment:       nondet.Bool("aligntrail"),
		AlignDeclarationProperty:   nondet.Bool("alignprop"),
		SortDeclarationProperty:    nondet.Bool("sortprop"),
		SortDeclaration:            nondet.Bool("sortdecl"),
		ReturnStatementParenthesis: true,
	}
}

func VerifLayout() {
	src := lyRender(LyTemplates[nondet.Param("T")], nondet.Param("LAYOUTS"))
	mode := nondet.Param("MODE")
	c := lyConf()
	v1, err := fpParse(src)
	nondet.Observe("src", src)
	nondet.Assert(err == nil, "the template does not parse under this layout")
	if err != nil {
		return
	}
	o1, ok := fpFormat(v1, c)
	nondet.Assert(ok, "the formatter returns no output for a parseable file")
	if !ok {
		return
	}
	v1b, _ := fpParse(src)
	v2, err := fpParse(o1)
	nondet.Assert(err == nil, "C03: the formatted text does not parse")
	if err != nil {
		return
	}
	switch mode {
	case 0:
		m := astcmp.Mode{Format: true, Literals: true, SortedProps: c.SortDeclarationProperty}
		if c.SortDeclaration {
			nondet.Assert(fpSameDecls(v1b.Statements, v2.Statements, m), "C03: formatting changes the program (declarations compared up to order): "+astcmp.Why)
		} else {
			nondet.Assert(astcmp.Stmts(v1b.Statements, v2.Statements, m), "C03: formatting changes the program: "+astcmp.Why)
		}
	case 1:
		o2, ok := fpFormat(v2, c)
		nondet.Assert(ok && o2 == o1, "C14: formatting the formatter's own output changes it")
	default:
		if !c.SortDeclaration && !c.SortDeclarationProperty {
			a, b := fpComments(src), fpComments(o1)
			same := len(a) == len(b)
			if same {
				for i := range a {
					if a[i] != b[i] {
						same = false
					}
				}
			}
			if len(b) < len(a) {
				nondet.Assert(false, "C15: a comment is dropped by the formatter")
			} else if len(b) > len(a) {
				nondet.Assert(false, "C15: a comment is printed more than once")
			}
			nondet.Assert(same, "C15: the comments of the formatted text differ from the comments of the input")
		}
	}
	nondet.Cover("checked")
}

// ---- expression shapes: operands in prefix, grouped, negated-group, nested
// group and negative-literal form, joined by one or two symbolic operators
// (comparison, logical, match, explicit + and juxtaposition), in a set
// statement, an if condition and a functional subroutine's return, under
// symbolic concatenation / line-width / condition-breaking / parenthesis
// options.  Sources the parser refuses are outside the claim.

var ExOperands = []string{"req.http.a", "\"s\"", "-1", "!req.http.b", "(req.http.c == \"1\")", "!(req.http.d && req.http.e)", "(req.http.c \"x\")", "((req.http.f))", "1"}
var ExOps = []string{"==", "!=", "&&", "||", "+", "", "~"}

func VerifExprFormat() {
	n := nondet.Param("OPS")
	names := []string{"a", "b", "c"}
	var sb strings.Builder
	for k := 0; k <= n; k++ {
		if k > 0 {
			op := ExOps[nondet.Choice("op"+names[k], len(ExOps))]
			if op == "" {
				sb.WriteString(" ")
			} else {
				sb.WriteString(" " + op + " ")
			}
		}
		sb.WriteString(ExOperands[nondet.Choice("x"+names[k], len(ExOperands))])
	}
	expr := sb.String()
	var src string
	switch nondet.Choice("context", 3) {
	case 0:
		src = "sub vcl_recv {\n  set req.http.x = " + expr + ";\n}\n"
	case 1:
		src = "sub vcl_recv {\n  if (" + expr + ") {\n    esi;\n  }\n}\n"
	default:
		src = "sub f BOOL {\n  return " + expr + ";\n}\n"
	}
	mode := nondet.Param("MODE")
	c := &config.FormatConfig{
		IndentWidth: 2, TrailingCommentWidth: 1, IndentStyle: "space", CommentStyle: "none",
		LineWidth:                  []int{120, -1, 24}[nondet.Choice("width", 3)],
		ExplicitStringConcat:       nondet.Bool("explicit"),
		BreakCompoundConditions:    nondet.Bool("breakcond"),
		ReturnStatementParenthesis: nondet.Bool("retparen"),
	}
	v1, err := fpParse(src)
	nondet.Observe("src", src)
	if err != nil {
		nondet.Cover("not-a-program")
		return
	}
	o1, ok := fpFormat(v1, c)
	nondet.Assert(ok, "the formatter returns no output for a parseable file")
	if !ok {
		return
	}
	v1b, _ := fpParse(src)
	v2, err := fpParse(o1)
	nondet.Assert(err == nil, "C03: the formatted text does not parse")
	if err != nil {
		return
	}
	if mode == 0 {
		nondet.Assert(astcmp.Stmts(v1b.Statements, v2.Statements, astcmp.Mode{Format: true, Literals: true}), "C03: formatting changes the expression: "+astcmp.Why)
	} else {
		o2, ok := fpFormat(v2, c)
		nondet.Assert(ok && o2 == o1, "C14: formatting the formatter's own output changes it")
	}
	nondet.Cover("checked")
}
