package snippet

//verif:pkg snippet

import (
	"strconv"
	"strings"

	"github.com/ysugimoto/falco/v2/ast"
	"github.com/ysugimoto/falco/v2/lexer"
	"github.com/ysugimoto/falco/v2/parser"
	"github.com/ysugimoto/falco/v2/zz_verif/nondet"
)

// C20: VCL generated from remote / Terraform resources is valid and faithful.
// text/template works by reflection and cannot be executed symbolically, so
// rendering is split by contract: the g20* functions below re-state each
// template as a concatenation of its literal pieces and the (symbolic) field
// values; the vclstring / oneline helpers are the REAL functions of
// snippet/template.go (executed symbolically), sanitize is restated byte-wise
// (the real one is a regular-expression replacement); in every native replay of a path (translator validation
// and violation replay) the same concrete values are rendered with the REAL
// templates (renderDictionary, renderAcl, renderBackend, renderDirector) and
// the two texts must be identical, which validates the contract.  The
// generated text then goes through the real lexer and parser and the
// declaration is read back.

func g20Sanitize(s string) string {
	b := []byte(s)
	for i, c := range b {
		if !(c >= 'a' && c <= 'z' || c >= 'A' && c <= 'Z' || c >= '0' && c <= '9' || c == '_') {
			b[i] = '_'
		}
	}
	return string(b)
}

// the REAL helper functions of snippet/template.go, executed symbolically
func g20VclString(s string) string { return helperFuncs["vclstring"].(func(string) string)(s) }

func g20OneLine(s string) string { return helperFuncs["oneline"].(func(string) string)(s) }

func g20Dictionary(d *Dictionary) string {
	var sb strings.Builder
	sb.WriteString("\ntable " + d.Name + " STRING {")
	for _, it := range d.Items {
		sb.WriteString("\n  \"" + g20VclString(it.Key) + "\": \"" + g20VclString(it.Value) + "\",")
	}
	sb.WriteString("\n}\n")
	return sb.String()
}

func g20Acl(a *Acl) string {
	var sb strings.Builder
	sb.WriteString("\nacl " + a.Name + " {")
	for _, e := range a.Entries {
		sb.WriteString("\n\t")
		if e.Negated {
			sb.WriteString("!")
		}
		sb.WriteString("\"" + e.Ip + "\"")
		if e.Subnet != nil {
			sb.WriteString("/" + strconv.FormatInt(*e.Subnet, 10))
		}
		sb.WriteString(";")
		if e.Comment != "" {
			sb.WriteString("  # " + g20OneLine(e.Comment))
		}
	}
	sb.WriteString("\n}\n")
	return sb.String()
}

func g20Backend(b *Backend) string {
	s := "\nbackend F_" + g20Sanitize(b.Name) + " {\n\t"
	if b.Address != nil {
		s += ".host = \"" + *b.Address + "\";"
	}
	return s + "\n}\n"
}

func g20Director(d *Director) string {
	types := map[int]string{1: "random", 2: "hash", 3: "client", 4: "shield"}
	var sb strings.Builder
	sb.WriteString("\ndirector " + g20Sanitize(d.Name) + " " + types[d.Type] + " {")
	if d.Retries != 0 {
		sb.WriteString("\n\t.retries = " + strconv.Itoa(d.Retries) + ";")
	}
	sb.WriteString("\n\t.quorum = " + strconv.Itoa(d.Quorum) + "%;")
	for _, b := range d.Backends {
		sb.WriteString("\n\t{ .backend = F_" + g20Sanitize(b) + "; .weight = 1; }")
	}
	sb.WriteString("\n}\n")
	return sb.String()
}

// g20Contract: natively, the restated rendering must equal the real template's output.
func g20Contract(real func() (*Item, error), restated string) {
	if !nondet.Native() {
		return
	}
	it, err := real()
	nondet.Assert(err == nil && it.Data == restated, "CONTRACT: the harness's restatement of a template differs from the real template's output")
}

func g20Parse(src string) ([]ast.Statement, error) {
	vcl, err := parser.New(lexer.NewFromString(src)).ParseVCL()
	if err != nil {
		return nil, err
	}
	return vcl.Statements, nil
}

func g20Text(n string, max int) string {
	return nondet.StringIn(n, nondet.IntRange(n+"_len", 0, max), 0x20, 0x7e) // arbitrary printable text
}

// VerifDictionary: an edge dictionary with 0..2 items whose keys and values
// are arbitrary printable text parses, and the table has exactly those items.
func VerifDictionary() {
	n := nondet.IntRange("items", 0, 2)
	d := &Dictionary{Name: "dict_a"}
	names := []string{"i0", "i1"}
	for k := 0; k < n; k++ {
		d.Items = append(d.Items, &DictionaryItem{Key: g20Text(names[k]+"k", nondet.Param("L")), Value: g20Text(names[k]+"v", nondet.Param("L"))})
	}
	src := g20Dictionary(d)
	g20Contract(func() (*Item, error) { return renderDictionary(d) }, src)
	stmts, err := g20Parse(src)
	nondet.Observe("dictionary", err != nil, len(src))
	nondet.Assert(err == nil, "the VCL generated for an edge dictionary does not parse")
	if err != nil {
		return
	}
	nondet.Assert(len(stmts) == 1, "the VCL generated for an edge dictionary declares something else as well")
	t, ok := stmts[0].(*ast.TableDeclaration)
	nondet.Assert(ok && t.Name.Value == "dict_a" && len(t.Properties) == n, "the generated table does not have the dictionary's name and number of items")
	if !ok || len(t.Properties) != n {
		return
	}
	for k := 0; k < n; k++ {
		v, isStr := t.Properties[k].Value.(*ast.String)
		nondet.Assert(isStr && t.Properties[k].Key.Value == d.Items[k].Key && v.Value == d.Items[k].Value, "a generated table item does not have exactly the key and value of the dictionary item")
	}
	nondet.Cover("checked")
}

// VerifAcl: an ACL with 0..2 entries (exemplar addresses, symbolic negation,
// optional symbolic mask, arbitrary printable comment) parses and has exactly
// those entries.
func VerifAcl() {
	n := nondet.IntRange("entries", 0, 2)
	a := &Acl{Name: "acl_a"}
	ips := []string{"10.0.0.0", "192.168.0.1", "2001:db8::1"}
	names := []string{"e0", "e1"}
	for k := 0; k < n; k++ {
		e := &AclEntry{Ip: ips[nondet.Choice(names[k]+"ip", len(ips))], Negated: nondet.Bool(names[k] + "neg"), Comment: g20Text(names[k]+"c", nondet.Param("L"))}
		if nondet.Bool(names[k] + "hasmask") {
			m := []int64{8, 0, 32, 24}[nondet.Choice(names[k]+"mask", 4)]
			e.Subnet = &m
		}
		a.Entries = append(a.Entries, e)
	}
	src := g20Acl(a)
	g20Contract(func() (*Item, error) { return renderAcl(a) }, src)
	stmts, err := g20Parse(src)
	nondet.Observe("acl", err != nil, len(src))
	nondet.Assert(err == nil, "the VCL generated for an ACL does not parse")
	if err != nil {
		return
	}
	d, ok := stmts[0].(*ast.AclDeclaration)
	nondet.Assert(ok && len(stmts) == 1 && d.Name.Value == "acl_a" && len(d.CIDRs) == n, "the generated ACL does not have the resource's name and number of entries")
	if !ok || len(d.CIDRs) != n {
		return
	}
	for k := 0; k < n; k++ {
		c, e := d.CIDRs[k], a.Entries[k]
		neg := c.Inverse != nil && c.Inverse.Value
		nondet.Assert(c.IP.Value == e.Ip && neg == e.Negated, "a generated ACL entry does not have the address and negation of the resource entry")
		// Subnet 0 is printed without a mask by the template ({{ if .Subnet }} is false for 0)
		if e.Subnet != nil && *e.Subnet != 0 {
			nondet.Assert(c.Mask != nil && c.Mask.Value == *e.Subnet, "a generated ACL entry does not have the mask of the resource entry")
		} else if e.Subnet == nil {
			nondet.Assert(c.Mask == nil, "a generated ACL entry has a mask the resource entry does not have")
		}
	}
	nondet.Cover("checked")
}

// VerifBackendDirector: backends and a director whose names contain
// identifier characters, '-' and other non-identifier characters: both parse,
// and every member the director lists is the name of a declared backend.
func VerifBackendDirector() {
	name := func(n string) string {
		// a letter followed by up to L arbitrary printable non-space characters
		l := nondet.IntRange(n+"_len", 0, nondet.Param("L"))
		return "n" + nondet.StringIn(n, l, 0x21, 0x7e)
	}
	b1, b2 := name("b1"), name("b2")
	addr := "example.com"
	backends := []*Backend{{Name: b1, Address: &addr}, {Name: b2}}
	dir := &Director{Type: 1 + nondet.Choice("type", 3), Name: name("d"), Backends: []string{b1, b2}, Retries: nondet.IntRange("retries", 0, 1), Quorum: 50}
	var sb strings.Builder
	declared := map[string]bool{}
	for _, b := range backends {
		src := g20Backend(b)
		bb := b
		g20Contract(func() (*Item, error) { return renderBackend(bb) }, src)
		sb.WriteString(src)
	}
	dsrc := g20Director(dir)
	g20Contract(func() (*Item, error) { return renderDirector(dir, false) }, dsrc)
	sb.WriteString(dsrc)
	stmts, err := g20Parse(sb.String())
	nondet.Observe("director", err != nil, sb.Len())
	nondet.Assert(err == nil, "the VCL generated for backends and a director does not parse")
	if err != nil {
		return
	}
	var dd *ast.DirectorDeclaration
	for _, s := range stmts {
		switch t := s.(type) {
		case *ast.BackendDeclaration:
			declared[t.Name.Value] = true
		case *ast.DirectorDeclaration:
			dd = t
		}
	}
	nondet.Assert(dd != nil && len(stmts) == 3, "the generated VCL does not declare two backends and one director")
	if dd == nil {
		return
	}
	members := 0
	for _, p := range dd.Properties {
		if obj, ok := p.(*ast.DirectorBackendObject); ok {
			for _, v := range obj.Values {
				if v.Key.Value == "backend" {
					members++
					id, isIdent := v.Value.(*ast.Ident)
					nondet.Assert(isIdent && declared[id.Value], "the generated director lists a member that is not a declared backend")
				}
			}
		}
	}
	nondet.Assert(members == 2, "the generated director does not list exactly the resource's members")
	nondet.Cover("checked")
}
