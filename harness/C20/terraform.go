package terraform

//verif:pkg snippet/terraform

import (
	"github.com/ysugimoto/falco/v2/snippet"
	"github.com/ysugimoto/falco/v2/zz_verif/nondet"
)

// C20 (Terraform side): the resources decoded from a Terraform plan reach the
// templates unchanged.  TerraformFetcher converts the planned service into the
// snippet.* records the templates render; for every ACL entry (address,
// negation, comment, subnet given as a decimal string or absent), dictionary
// item, backend and director the record must carry exactly the resource's
// data, in order.  (Rendering and parsing of the records is the other C20
// harness; JSON decoding of the plan is outside the claim.)

func tfDigits(s string) (int64, bool) {
	if len(s) == 0 {
		return 0, false
	}
	var n int64
	for i := 0; i < len(s); i++ {
		if s[i] < '0' || s[i] > '9' {
			return 0, false
		}
		n = n*10 + int64(s[i]-'0')
	}
	return n, true
}

func VerifTerraformFetcher() {
	ips := []string{"192.0.2.0", "0.0.0.0", "2001:db8::", "::"}
	var entries []*AclEntry
	ne := nondet.IntRange("entries", 0, 2)
	names := []string{"e0", "e1"}
	for k := 0; k < ne; k++ {
		n := names[k]
		entries = append(entries, &AclEntry{
			Ip:      ips[nondet.Choice(n+"_ip", len(ips))],
			Negated: nondet.Bool(n + "_neg"),
			Comment: nondet.StringIn(n+"_c", 1, 0x20, 0x7e),
			Subnet:  "24",
		})
		if k == 0 {
			entries[0].Subnet = nondet.StringIn("subnet", nondet.IntRange("subnet_len", 0, 2), '/', ':') // '/', digits, ':'
		}
	}
	var items []*DictionaryItem
	ni := nondet.IntRange("items", 0, 1)
	for k := 0; k < ni; k++ {
		items = append(items, &DictionaryItem{Key: nondet.StringIn(names[k]+"_k", 1, 0x20, 0x7e), Value: nondet.StringIn(names[k]+"_v", 1, 0x20, 0x7e)})
	}
	addr := "origin.example.com"
	retries, quorum, dtype := int(nondet.Int64("retries")), int(nondet.Int64("quorum")), int(nondet.Int64("dtype")) // plain symbolic integers (no case split)
	nondet.Assume(retries >= 0 && retries <= 10 && quorum >= 0 && quorum <= 100 && dtype >= 1 && dtype <= 4)
	bname := nondet.StringIn("bname", 2, 0x20, 0x7e)
	svc := &FastlyService{
		Name:         "svc",
		Acls:         []*Acl{{Name: "acl1", Entries: entries}},
		Dictionaries: []*Dictionary{{Name: "dict1", Items: items}},
		Backends:     []*Backend{{Name: bname, Address: &addr}, {Name: "second"}},
		Directors:    []*Director{{Type: dtype, Name: "dir1", Backends: []string{bname, "second"}, Retries: &retries, Quorum: &quorum}},
	}
	f := NewTerraformFetcher([]*FastlyService{svc})

	acls, err := f.Acls()
	nondet.Assert(err == nil && len(acls) == 1 && acls[0].Name == "acl1" && len(acls[0].Entries) == len(entries), "the ACL of the plan does not reach the generator with all its entries")
	if err != nil || len(acls) != 1 || len(acls[0].Entries) != len(entries) {
		return
	}
	for k, e := range entries {
		g := acls[0].Entries[k]
		nondet.Assert(g != nil && g.Ip == e.Ip && g.Negated == e.Negated && g.Comment == e.Comment, "address, negation or comment of an ACL entry changes between the plan and the generator")
		if g == nil {
			return
		}
		want, has := tfDigits(e.Subnet)
		if has {
			nondet.Assert(g.Subnet != nil && *g.Subnet == want, "the subnet of an ACL entry is lost or changed between the plan and the generator")
		} else {
			nondet.Assert(g.Subnet == nil, "an ACL entry without a numeric subnet gets one")
		}
	}
	dicts, err := f.Dictionaries()
	nondet.Assert(err == nil && len(dicts) == 1 && dicts[0].Name == "dict1" && len(dicts[0].Items) == len(items), "the dictionary of the plan does not reach the generator with all its items")
	if err != nil || len(dicts) != 1 || len(dicts[0].Items) != len(items) {
		return
	}
	for k, it := range items {
		g := dicts[0].Items[k]
		nondet.Assert(g != nil && g.Key == it.Key && g.Value == it.Value, "a dictionary item changes between the plan and the generator")
	}
	bs, err := f.Backends()
	nondet.Assert(err == nil && len(bs) == 2 && bs[0].Name == bname && bs[0].Address != nil && *bs[0].Address == addr && bs[1].Name == "second" && bs[1].Address == nil, "the backends of the plan do not reach the generator unchanged")
	ds, err := f.Directors()
	nondet.Assert(err == nil && len(ds) == 1, "the director of the plan does not reach the generator")
	if err != nil || len(ds) != 1 {
		return
	}
	d := ds[0]
	nondet.Assert(d.Name == "dir1" && d.Type == svc.Directors[0].Type && d.Retries == retries && d.Quorum == quorum && len(d.Backends) == 2 && d.Backends[0] == bname && d.Backends[1] == "second", "the director changes between the plan and the generator")
	var _ *snippet.Acl = acls[0]
	nondet.Cover("checked")
}
