package linter

//verif:pkg linter

import (
	"errors"
	"sort"
	"strings"

	"github.com/ysugimoto/falco/v2/ast"
	"github.com/ysugimoto/falco/v2/config"
	"github.com/ysugimoto/falco/v2/lexer"
	"github.com/ysugimoto/falco/v2/linter/context"
	"github.com/ysugimoto/falco/v2/parser"
	"github.com/ysugimoto/falco/v2/resolver"
	"github.com/ysugimoto/falco/v2/zz_verif/nondet"
)

// C11: linting is total and deterministic.

type dtResolver struct{ mods map[string]string }

func (r *dtResolver) MainVCL() (*resolver.VCL, error) {
	return &resolver.VCL{Name: "main.vcl", Data: r.mods["main"]}, nil
}
func (r *dtResolver) Resolve(stmt *ast.IncludeStatement) (*resolver.VCL, error) {
	if d, ok := r.mods[stmt.Module.Value]; ok {
		return &resolver.VCL{Name: stmt.Module.Value, Data: d}, nil
	}
	return nil, errors.New("module not found: " + stmt.Module.Value)
}
func (r *dtResolver) Name() string           { return "" }
func (r *dtResolver) IncludePaths() []string { return nil }

func dtLint(main string, mods map[string]string) ([]string, bool) {
	vcl, err := parser.New(lexer.NewFromString(main, lexer.WithFile("main.vcl"))).ParseVCL()
	if err != nil {
		return nil, false
	}
	l := New(&config.LinterConfig{})
	all := map[string]string{"main": main}
	for k, v := range mods {
		all[k] = v
	}
	l.Lint(vcl, context.New(context.WithResolver(&dtResolver{all})))
	var out []string
	for _, e := range l.Errors {
		out = append(out, string(e.Rule)+"|"+string(e.Severity)+"|"+e.Message)
	}
	if l.FatalError != nil {
		out = append(out, "fatal|ERROR|a module does not parse")
	}
	sort.Strings(out)
	return out, true
}

// VerifIncludeGraph: every include graph over the main file and two modules
// (each includes nothing, itself, the other module, the main file or a
// missing module; at root level or inside a subroutine, there directly or
// from an if / else / switch block of the module) is linted to the end;
// a missing module yields a diagnostic.
func VerifIncludeGraph() {
	targets := []string{"", "m1", "m2", "main", "missing"}
	inSub := nondet.Bool("insub") // statement-level includes (inside a subroutine) or root-level ones
	mk := func(name string, self string) (string, string) {
		t := targets[nondet.Choice("inc_"+name, len(targets))]
		if t == "" {
			if inSub {
				return "set req.http." + name + " = \"1\";\n", t
			}
			return "sub s_" + name + " {\n  esi;\n}\n", t
		}
		if inSub && name != "main" {
			// in a module included at statement level the include may sit in a nested block
			switch nondet.Choice("nest_"+name, 4) {
			case 1:
				return "if (req.http.a) {\n  include \"" + t + "\";\n}\n", t
			case 2:
				return "if (req.http.a) {\n  esi;\n} else {\n  include \"" + t + "\";\n}\n", t
			case 3:
				return "switch (req.http.a) {\ncase \"1\":\n  include \"" + t + "\";\n  break;\n}\n", t
			}
		}
		return "include \"" + t + "\";\n", t
	}
	b0, t0 := mk("main", "main")
	b1, t1 := mk("m1", "m1")
	b2, t2 := mk("m2", "m2")
	main := b0
	if inSub {
		main = "sub vcl_recv {\n#FASTLY RECV\n" + b0 + "}\n"
	}
	got, ok := dtLint(main, map[string]string{"m1": b1, "m2": b2})
	nondet.Observe("graph", ok, len(got))
	nondet.Assert(ok, "the main file does not parse")
	// does the chain starting at main reach a missing module?
	reach := func() bool {
		cur, steps := t0, 0
		for cur != "" && steps < 4 {
			if cur == "missing" {
				return true
			}
			switch cur {
			case "m1":
				cur = t1
			case "m2":
				cur = t2
			case "main":
				return false // back to the main file: a cycle (reported as recursive)
			}
			steps++
		}
		return false
	}()
	if reach {
		found := false
		for _, d := range got {
			if strings.Contains(d, "missing") || strings.HasPrefix(d, "fatal|") { // (a module the snippet parser refuses ends the run with its own error)
				found = true
			}
		}
		nondet.Assert(found, "a missing module is not reported")
	}
	nondet.Cover("finished")
}

// VerifDeterministic: linting the same program twice, and linting it with its
// subroutine declarations permuted and with another map iteration order,
// reports the same multiset of diagnostics (rule, severity, message).
func VerifDeterministic() {
	// a call graph over four helper subroutines: chains of up to four inferred
	// edges below vcl_recv, shared callees, cycles reachable from outside, a
	// call of an undeclared subroutine; the deepest helper writes a variable
	// that is only valid in some scopes, so an incomplete scope inference shows
	choices := map[string][]string{
		"recv": {"a", "b"},
		"a":    {"", "b", "c"},
		"b":    {"", "c", "d", "a", "nosuch"},
		"c":    {"", "d", "a"},
		"d":    {"", "a"},
	}
	body := func(name string) string {
		cs := choices[name]
		c := cs[nondet.Choice("calls_"+name, len(cs))]
		if c == "" {
			return "  esi;\n"
		}
		return "  call " + c + ";\n"
	}
	subs := []string{
		"sub a {\n" + body("a") + "}\n",
		"sub b {\n" + body("b") + "}\n",
		"sub c {\n" + body("c") + "  set req.http.C = \"1\";\n}\n",
		"sub d {\n" + body("d") + "  set beresp.http.D = \"1\";\n}\n",
		"sub vcl_recv {\n#FASTLY RECV\n" + body("recv") + "  set req.http.A = req.http.undefined.x;\n}\n",
		"acl unused_acl {\n  \"10.0.0.0\"/8;\n}\ntable unused_table {\n  \"k\": \"v\",\n}\n",
	}
	perms := [][]int{{0, 1, 2, 3, 4, 5}, {3, 2, 1, 0, 4, 5}, {4, 0, 1, 2, 3, 5}, {5, 4, 3, 2, 1, 0}, {1, 3, 0, 2, 5, 4}, {2, 0, 3, 1, 4, 5}}
	render := func(p []int) string {
		var sb strings.Builder
		for _, k := range p {
			sb.WriteString(subs[k])
		}
		return sb.String()
	}
	base, ok := dtLint(render(perms[0]), nil)
	nondet.Assert(ok, "the program does not parse")
	again, _ := dtLint(render(perms[0]), nil)
	p := perms[nondet.Choice("perm", len(perms))]
	same := func(x, y []string) bool {
		if len(x) != len(y) {
			return false
		}
		for i := range x {
			if x[i] != y[i] {
				return false
			}
		}
		return true
	}
	nondet.Assert(same(base, again), "linting the same program twice reports different diagnostics")
	// under the engine the map iteration order is one of the modelled orders; natively it is Go's
	// random order, so the replay repeats the run to meet the order-dependent outcome
	rounds := 1
	if nondet.Native() {
		rounds = 64
	}
	for r := 0; r < rounds; r++ {
		nondet.MapOrder(true)
		other, _ := dtLint(render(p), nil)
		nondet.MapOrder(false)
		if r == 0 {
			nondet.Observe("diagnostics", len(base), len(other))
		}
		nondet.Assert(same(base, other), "permuting the subroutine declarations (or another map iteration order) changes the diagnostics")
	}
	nondet.Cover("checked")
}
