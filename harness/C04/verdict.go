package main

//verif:pkg cmd/falco
//verif:native go
//verif:intercept github.com/ysugimoto/falco/v2/cmd/falco.write vdWrite
//verif:intercept github.com/ysugimoto/falco/v2/cmd/falco.writeln vdWrite
//verif:intercept (*encoding/json.Encoder).Encode vdEncode

import (
	"encoding/json"
	"errors"
	"strings"

	"github.com/fatih/color"
	"github.com/ysugimoto/falco/v2/ast"
	"github.com/ysugimoto/falco/v2/config"
	"github.com/ysugimoto/falco/v2/lexer"
	"github.com/ysugimoto/falco/v2/linter"
	lcontext "github.com/ysugimoto/falco/v2/linter/context"
	"github.com/ysugimoto/falco/v2/parser"
	"github.com/ysugimoto/falco/v2/resolver"
	"github.com/ysugimoto/falco/v2/zz_verif/nondet"
)

// C04: the lint command's verdict is consistent.  The real runLint, Runner.Run,
// run, parseVCL, printLinterError and NewRunner (override parsing) and the
// real linter run on a program chosen symbolically from a small library (clean,
// warning only, info only, error, syntax error, included module with an error
// / a syntax error, statement-only snippet), with the output mode, verbosity
// and rule overrides symbolic.  Output is not looked at: write / writeln and
// the JSON encoder are silenced in the engine (natively they print).

func vdWrite(c *color.Color, format string, args ...any) {}
func vdEncode(e *json.Encoder, v any) error              { return nil }

type vdResolver struct {
	main  string
	incls map[string]string
}

func (r *vdResolver) MainVCL() (*resolver.VCL, error) {
	return &resolver.VCL{Name: "main.vcl", Data: r.main}, nil
}
func (r *vdResolver) Resolve(stmt *ast.IncludeStatement) (*resolver.VCL, error) {
	if d, ok := r.incls[stmt.Module.Value]; ok {
		return &resolver.VCL{Name: stmt.Module.Value + ".vcl", Data: d}, nil
	}
	return nil, errors.New("module not found: " + stmt.Module.Value)
}
func (r *vdResolver) Name() string           { return "" }
func (r *vdResolver) IncludePaths() []string { return nil }

const vdBackend = "backend b {\n  .host = \"example.com\";\n}\n"

var VdPrograms = []struct {
	main   string
	incls  map[string]string
	syntax bool // by construction: the main file or a module it reaches has a syntax error
}{
	{vdBackend + "sub vcl_recv {\n  #FASTLY RECV\n  set req.backend = b;\n  return(lookup);\n}\n", nil, false},                                                                                                      // 0 clean
	{vdBackend + "sub vcl_recv {\n  #FASTLY RECV\n  set req.backend = b;\n  set req.http.A = req.http.undefined.variable.x;\n}\n", nil, false},                                                                      // 1 error(s)
	{vdBackend + "sub vcl_recv {\n  set req.backend = b;\n  return(lookup);\n}\n", nil, false},                                                                                                                      // 2 missing boilerplate macro (a non-error diagnostic)
	{vdBackend + "sub vcl_recv {\n  #FASTLY RECV\n  set req.backend = b\n}\n", nil, true},                                                                                                                           // 3 syntax error in the main file
	{vdBackend + "include \"inc\";\nsub vcl_recv {\n  #FASTLY RECV\n  set req.backend = b;\n}\n", map[string]string{"inc": "sub inc_sub {\n  set req.http.A = \n}\n"}, true},                                        // 4 syntax error in an included module
	{vdBackend + "include \"inc\";\nsub vcl_recv {\n  #FASTLY RECV\n  set req.backend = b;\n  call inc_sub;\n}\n", map[string]string{"inc": "sub inc_sub {\n  set req.http.A = std.nosuchfunction();\n}\n"}, false}, // 5 error in an included module
	{"set req.http.A = \"1\";\n", nil, false}, // 6 statement-only snippet
	{vdBackend + "sub vcl_recv {\n  #FASTLY RECV\n  set req.backend = b;\n  unset req.http.X;\n  restart;\n}\nsub unused_sub {\n  esi;\n}\n", nil, false},                                                                                                               // 7 several diagnostics of different rules
	{vdBackend + "include \"missing\";\nsub vcl_recv {\n  #FASTLY RECV\n  set req.backend = b;\n}\n", nil, false},                                                                                                                                                       // 8 missing include
	{vdBackend + "include \"inc\";\ninclude \"good\";\nsub vcl_recv {\n  #FASTLY RECV\n  set req.backend = b;\n}\n", map[string]string{"inc": "sub inc_sub {\n  set req.http.A = \n}\n", "good": "sub good_sub {\n  esi;\n}\n"}, true},                                  // 9 a module with a syntax error, then a module that parses
	{vdBackend + "include \"good\";\ninclude \"inc\";\nsub vcl_recv {\n  #FASTLY RECV\n  set req.backend = b;\n}\n", map[string]string{"inc": "sub inc_sub {\n  set req.http.A = \n}\n", "good": "sub good_sub {\n  esi;\n}\n"}, true},                                  // 10 the other order
	{vdBackend + "sub vcl_recv {\n  #FASTLY RECV\n  set req.backend = b;\n  include \"binc\";\n  include \"bgood\";\n}\n", map[string]string{"binc": "set req.http.A = ;\n", "bgood": "set req.http.B = \"1\";\n"}, true},                                               // 11 the same inside a subroutine
	{vdBackend + "include \"outer\";\nsub vcl_recv {\n  #FASTLY RECV\n  set req.backend = b;\n}\n", map[string]string{"outer": "include \"inc\";\ninclude \"good\";\n", "inc": "sub inc_sub {\n  set req.http.A = \n}\n", "good": "sub good_sub {\n  esi;\n}\n"}, true}, // 12 nested
}

func vdConfig(tag string, rules map[string]string) *config.Config {
	lc := &config.LinterConfig{Rules: rules}
	switch nondet.Choice(tag+"_level", 3) {
	case 1:
		lc.VerboseWarning = true
	case 2:
		lc.VerboseInfo = true
	}
	return &config.Config{Json: nondet.Bool(tag + "_json"), Linter: lc}
}

// vdExpected recomputes the verdict from a direct run of the parser and linter.
func vdExpected(p int, rules map[string]string) (wantExit bool, errs, warns, infos int, ok bool) {
	prog := VdPrograms[p]
	rs := &vdResolver{prog.main, prog.incls}
	if prog.syntax {
		return true, 0, 0, 0, true // a syntax error anywhere fails the run, whatever the linter keeps of it
	}
	vcl, err := parser.New(lexer.NewFromString(prog.main, lexer.WithFile("main.vcl"))).ParseVCLOrSnippet()
	if err != nil {
		return true, 0, 0, 0, true
	}
	lt := linter.New(&config.LinterConfig{Rules: rules})
	lt.Lint(vcl, lcontext.New(lcontext.WithResolver(rs)))
	if lt.FatalError != nil {
		return true, 0, 0, 0, true
	}
	for _, le := range lt.Errors {
		sev := le.Severity
		if v, found := rules[string(le.Rule)]; found {
			switch strings.ToUpper(v) {
			case "ERROR":
				sev = linter.ERROR
			case "WARNING":
				sev = linter.WARNING
			case "INFO":
				sev = linter.INFO
			case "IGNORE":
				sev = linter.IGNORE
			}
		}
		switch sev {
		case linter.ERROR:
			errs++
		case linter.WARNING:
			warns++
		case linter.INFO:
			infos++
		}
	}
	return errs > 0, errs, warns, infos, true
}

func vdRun(p int, c *config.Config) (exit bool, r *Runner) {
	prog := VdPrograms[p]
	rs := &vdResolver{prog.main, prog.incls}
	r = NewRunner(c, nil)
	err := runLint(r, rs)
	return err == ErrExit, r
}

var vdRuleNames = []string{"", "subroutine/boilerplate-macro", "unused/declaration", "restart-statement/scope", "unset-statement/syntax"}
var vdLevels = []string{"ERROR", "WARNING", "info", "IGNORE", "garbage"}

func VerifLintVerdict() {
	p := nondet.Param("P")
	rules := map[string]string{}
	if rn := vdRuleNames[nondet.Choice("ovrule", len(vdRuleNames))]; rn != "" {
		rules[rn] = vdLevels[nondet.Choice("ovlevel", len(vdLevels))]
	}
	wantExit, we, ww, wi, _ := vdExpected(p, rules)
	c1 := vdConfig("c1", rules)
	c2 := vdConfig("c2", rules)
	e1, r1 := vdRun(p, c1)
	e2, r2 := vdRun(p, c2)
	nondet.Observe("verdict", e1, e2, r1.errors, r1.warnings, r1.infos)
	nondet.Assert(e1 == wantExit, "falco lint does not exit non-zero exactly when there is a syntax error or a diagnostic of effective severity ERROR")
	nondet.Assert(e1 == e2, "the exit status of falco lint depends on the output mode or the verbosity")
	if !wantExit || we > 0 {
		nondet.Assert(r1.errors == we && r1.warnings == ww && r1.infos == wi, "the reported counts are not the numbers of diagnostics by effective severity")
		nondet.Assert(r1.errors == r2.errors && r1.warnings == r2.warnings && r1.infos == r2.infos, "the reported counts depend on the output mode or the verbosity")
	}
	if wantExit {
		nondet.Cover("fails")
	} else {
		nondet.Cover("passes")
	}
}
