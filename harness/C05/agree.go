package interpreter

//verif:pkg interpreter
//verif:intercept (*github.com/ysugimoto/falco/v2/interpreter/http.Request).Clone agCloneRequest

import (
	gocontext "context"
	ghttp "net/http"
	"net/url"
	"strings"
	"time"

	"github.com/ysugimoto/falco/v2/ast"
	"github.com/ysugimoto/falco/v2/config"
	"github.com/ysugimoto/falco/v2/interpreter/context"
	ihttp "github.com/ysugimoto/falco/v2/interpreter/http"
	"github.com/ysugimoto/falco/v2/interpreter/process"
	"github.com/ysugimoto/falco/v2/interpreter/value"
	"github.com/ysugimoto/falco/v2/lexer"
	"github.com/ysugimoto/falco/v2/linter"
	lcontext "github.com/ysugimoto/falco/v2/linter/context"
	"github.com/ysugimoto/falco/v2/parser"
	"github.com/ysugimoto/falco/v2/zz_verif/nondet"
)

// C05: linter, reference tables and simulator agree.

func agCloneRequest(r *ihttp.Request, c gocontext.Context) *ihttp.Request { return r }

var agScopes = []string{"recv", "hash", "hit", "miss", "pass", "fetch", "error", "deliver", "log"}
var agScopeValues = []context.Scope{context.RecvScope, context.HashScope, context.HitScope, context.MissScope, context.PassScope, context.FetchScope, context.ErrorScope, context.DeliverScope, context.LogScope}

// agLintErrors lints a program and returns its ERROR diagnostics.
func agLintErrors(src string) ([]string, bool) {
	vcl, err := parser.New(lexer.NewFromString(src)).ParseVCL()
	if err != nil {
		return nil, false
	}
	l := linter.New(&config.LinterConfig{})
	l.Lint(vcl, lcontext.New())
	var out []string
	for _, e := range l.Errors {
		if e.Severity == linter.ERROR {
			out = append(out, string(e.Rule)+"|"+e.Message)
		}
	}
	return out, true
}

// ---- reference tables (from the property statement and the Fastly pages the
// repository cites): which scopes allow a statement, which actions a scope allows

func agStatementAllowed(kind, scope string) bool {
	in := func(l ...string) bool {
		for _, s := range l {
			if s == scope {
				return true
			}
		}
		return false
	}
	switch kind {
	case "restart":
		return in("recv", "hit", "fetch", "error", "deliver")
	case "error":
		return in("recv", "hit", "miss", "pass", "fetch")
	case "synthetic", "synthetic.base64":
		return in("error")
	case "esi":
		return in("fetch")
	}
	return false
}

var agActions = []string{"lookup", "pass", "hash", "error", "restart", "deliver", "fetch", "deliver_stale", "hit_for_pass"}

func agActionAllowed(scope, action string) bool {
	allowed := map[string]string{
		"recv": "lookup pass error restart", "hash": "hash", "hit": "deliver pass error restart", "miss": "fetch deliver_stale pass error",
		"pass": "pass", "fetch": "deliver deliver_stale hit_for_pass pass error restart", "error": "deliver deliver_stale restart",
		"deliver": "deliver restart", "log": "deliver",
	}
	for _, a := range strings.Fields(allowed[scope]) {
		if a == action {
			return true
		}
	}
	return false
}

var agStatementText = map[string]string{"restart": "restart;", "error": "error 601;", "synthetic": "synthetic \"x\";", "synthetic.base64": "synthetic.base64 \"eA==\";", "esi": "esi;"}
var AgStatementKinds = []string{"restart", "error", "synthetic", "synthetic.base64", "esi"}

func agStatementNode(kind string) ast.Statement {
	m := func() *ast.Meta { return &ast.Meta{} }
	switch kind {
	case "restart":
		return &ast.RestartStatement{Meta: m()}
	case "error":
		return &ast.ErrorStatement{Meta: m(), Code: &ast.Integer{Meta: m(), Value: 601}}
	case "synthetic":
		return &ast.SyntheticStatement{Meta: m(), Value: &ast.String{Meta: m(), Value: "x"}}
	case "synthetic.base64":
		return &ast.SyntheticBase64Statement{Meta: m(), Value: &ast.String{Meta: m(), Value: "eA=="}}
	default:
		return &ast.EsiStatement{Meta: m()}
	}
}

func agInterp(scope context.Scope) *Interpreter {
	i := New()
	i.ctx = context.New()
	i.process = process.New()
	i.ctx.Request = ihttp.WrapRequest(&ghttp.Request{Method: "GET", Header: ghttp.Header{}, URL: &url.URL{Path: "/x"}})
	i.ctx.BackendRequest = ihttp.WrapRequest(&ghttp.Request{Method: "GET", Header: ghttp.Header{}, URL: &url.URL{Path: "/x"}})
	i.ctx.BackendResponse = ihttp.WrapResponse(&ghttp.Response{StatusCode: 200, Header: ghttp.Header{}})
	i.ctx.Object = ihttp.WrapResponse(&ghttp.Response{StatusCode: 200, Header: ghttp.Header{}})
	i.ctx.Response = ihttp.WrapResponse(&ghttp.Response{StatusCode: 200, Header: ghttp.Header{}})
	i.SetScope(scope)
	return i
}

// VerifScopedStatements: a scope-restricted statement in a subroutine that
// runs in the scopes of a symbolic non-empty set: the linter accepts it
// exactly when every scope of the set allows it (reference table), and then
// the simulator executes it in every one of those scopes.
func VerifScopedStatements() {
	kind := AgStatementKinds[nondet.Param("KIND")]
	// the scope set: one or two scopes (symbolic)
	s1 := nondet.Choice("s1", len(agScopes))
	s2 := nondet.Choice("s2", len(agScopes))
	set := []int{s1}
	if s2 != s1 {
		set = append(set, s2)
	}
	var names []string
	for _, s := range set {
		names = append(names, agScopes[s])
	}
	src := "// @scope: " + strings.Join(names, ", ") + "\nsub user_sub {\n  " + agStatementText[kind] + "\n}\n"
	errs, ok := agLintErrors(src)
	nondet.Assert(ok, "the program does not parse")
	if !ok {
		return
	}
	want := true
	for _, s := range set {
		want = want && agStatementAllowed(kind, agScopes[s])
	}
	accepted := len(errs) == 0
	nondet.Observe("verdict", accepted, want)
	nondet.Assert(accepted == want, "the linter does not accept the "+kind+" statement exactly when every scope of the subroutine allows it")
	for _, s := range set {
		i := agInterp(agScopeValues[s])
		_, _, _, err := i.ProcessBlockStatement([]ast.Statement{agStatementNode(kind)}, DebugPass, false)
		if accepted {
			nondet.Assert(err == nil, "the simulator refuses a "+kind+" statement that the linter accepts in this scope")
		}
		if err == nil {
			nondet.Assert(agStatementAllowed(kind, agScopes[s]), "the simulator executes a "+kind+" statement in a scope that does not allow it")
		}
	}
	nondet.Cover("checked")
}

// VerifReturnActions: return(action) in a subroutine that runs in a symbolic
// set of one or two scopes is accepted by the linter exactly when every scope
// allows the action.  (That the simulator follows the same table is C06.)
func VerifReturnActions() {
	action := agActions[nondet.Choice("action", len(agActions))]
	s1 := nondet.Choice("s1", len(agScopes))
	s2 := nondet.Choice("s2", len(agScopes))
	set := []int{s1}
	if s2 != s1 {
		set = append(set, s2)
	}
	var names []string
	want := true
	for _, s := range set {
		names = append(names, agScopes[s])
		want = want && agActionAllowed(agScopes[s], action)
	}
	src := "// @scope: " + strings.Join(names, ", ") + "\nsub user_sub {\n  return(" + action + ");\n}\n"
	errs, ok := agLintErrors(src)
	nondet.Assert(ok, "the program does not parse")
	if !ok {
		return
	}
	nondet.Observe("verdict", len(errs) == 0, want)
	nondet.Assert((len(errs) == 0) == want, "the linter does not accept return("+action+") exactly when every scope of the subroutine allows it")
	nondet.Cover("checked")
}

// ---- assignment and comparison operators: linter accepts => simulator executes

var AgTypes = []string{"INTEGER", "FLOAT", "STRING", "BOOL", "RTIME", "TIME", "IP"}
var AgAssignOps = []string{"=", "+=", "-=", "*=", "/=", "%=", "|=", "&=", "^=", "<<=", ">>=", "rol=", "ror=", "&&=", "||="}
var AgCompareOps = []string{"==", "!=", "<", ">", "<=", ">="}

func agLiteral(t string) string {
	switch t {
	case "INTEGER":
		return "2"
	case "FLOAT":
		return "2.5"
	case "STRING":
		return "\"192.0.2.1\""
	case "BOOL":
		return "true"
	case "RTIME":
		return "2s"
	}
	return ""
}

// agBenign installs operand values for which no value-dependent runtime error
// can arise (non-zero, small, finite): symbolic within that range.
func agBenign(i *Interpreter, name, t, tag string) {
	switch t {
	case "INTEGER":
		v := nondet.Int64(tag)
		nondet.Assume(v >= 1 && v <= 31)
		i.localVars[name] = &value.Integer{Value: v}
	case "FLOAT":
		v := nondet.Int64(tag)
		nondet.Assume(v >= 1 && v <= 31)
		i.localVars[name] = &value.Float{Value: float64(v) + 0.5}
	case "STRING":
		i.localVars[name] = &value.String{Value: "192.0.2.1"}
	case "BOOL":
		i.localVars[name] = &value.Boolean{Value: nondet.Bool(tag)}
	case "RTIME":
		v := nondet.Int64(tag)
		nondet.Assume(v >= 1 && v <= 31)
		i.localVars[name] = &value.RTime{Value: time.Duration(v) * time.Second}
	case "TIME":
		i.localVars[name] = &value.Time{Value: time.Unix(1767225600, 0).UTC()}
	default:
		i.localVars[name] = &value.IP{Value: []byte{192, 0, 2, 1}}
	}
}

// VerifAssignAgreement: `set var.l OP rhs` with rhs a variable or a literal of
// type RT: if the linter reports no error, the simulator executes the
// statement without error for every benign operand value.
func VerifAssignAgreement() {
	lt, rt := AgTypes[nondet.Param("LT")], AgTypes[nondet.Param("RT")]
	op := AgAssignOps[nondet.Choice("op", len(AgAssignOps))]
	literal := nondet.Bool("literal") && agLiteral(rt) != ""
	rhs := "var.r"
	if literal {
		rhs = agLiteral(rt)
	}
	src := "sub vcl_recv {\n  #FASTLY RECV\n  declare local var.l " + lt + ";\n  declare local var.r " + rt + ";\n  set var.l " + op + " " + rhs + ";\n}\n"
	errs, ok := agLintErrors(src)
	nondet.Assert(ok, "the program does not parse")
	if !ok {
		return
	}
	accepted := len(errs) == 0
	vcl, _ := parser.New(lexer.NewFromString(src)).ParseVCL()
	body := vcl.Statements[0].(*ast.SubroutineDeclaration).Block.Statements
	i := agInterp(context.RecvScope)
	agBenign(i, "var.l", lt, "l")
	agBenign(i, "var.r", rt, "r")
	err := i.ProcessSetStatement(body[2].(*ast.SetStatement))
	nondet.Observe("cell", accepted, err != nil, literal)
	if accepted {
		nondet.Assert(err == nil, "the simulator fails on an assignment the linter accepts ("+lt+" "+op+" "+rt+")")
		nondet.Cover("accepted")
	} else {
		nondet.Cover("rejected")
	}
}

// VerifCompareAgreement: `if (var.l OP rhs)`: linter accepts => the simulator
// evaluates the condition without error.
func VerifCompareAgreement() {
	lt, rt := AgTypes[nondet.Param("LT")], AgTypes[nondet.Param("RT")]
	op := AgCompareOps[nondet.Choice("op", len(AgCompareOps))]
	literal := nondet.Bool("literal") && agLiteral(rt) != ""
	rhs := "var.r"
	if literal {
		rhs = agLiteral(rt)
	}
	src := "sub vcl_recv {\n  #FASTLY RECV\n  declare local var.l " + lt + ";\n  declare local var.r " + rt + ";\n  if (var.l " + op + " " + rhs + ") {\n    set req.http.A = \"1\";\n  }\n}\n"
	errs, ok := agLintErrors(src)
	nondet.Assert(ok, "the program does not parse")
	if !ok {
		return
	}
	accepted := len(errs) == 0
	vcl, _ := parser.New(lexer.NewFromString(src)).ParseVCL()
	body := vcl.Statements[0].(*ast.SubroutineDeclaration).Block.Statements
	i := agInterp(context.RecvScope)
	agBenign(i, "var.l", lt, "l")
	agBenign(i, "var.r", rt, "r")
	_, _, _, err := i.ProcessBlockStatement(body[2:], DebugPass, false)
	nondet.Observe("cell", accepted, err != nil, literal)
	if accepted {
		nondet.Assert(err == nil, "the simulator fails on a comparison the linter accepts ("+lt+" "+op+" "+rt+")")
		nondet.Cover("accepted")
	} else {
		nondet.Cover("rejected")
	}
}
