package interpreter

//verif:pkg interpreter
//verif:generate python3 tools/gen_c05_tables.py
//verif:overlay interpreter/zz_verif_c05_tables.go=build/gen/C05/tables.go
//verif:intercept (*github.com/ysugimoto/falco/v2/interpreter/http.Request).Clone agCloneRequest

import (
	gocontext "context"
	"io"
	ghttp "net/http"
	"net/url"
	"strings"
	"sync/atomic"
	"time"

	"github.com/ysugimoto/falco/v2/ast"
	"github.com/ysugimoto/falco/v2/config"
	"github.com/ysugimoto/falco/v2/interpreter/context"
	ihttp "github.com/ysugimoto/falco/v2/interpreter/http"
	"github.com/ysugimoto/falco/v2/interpreter/process"
	"github.com/ysugimoto/falco/v2/interpreter/value"
	"github.com/ysugimoto/falco/v2/lexer"
	"github.com/ysugimoto/falco/v2/linter"
	lcontext "github.com/ysugimoto/falco/v2/linter/context"
	"github.com/ysugimoto/falco/v2/parser"
	"github.com/ysugimoto/falco/v2/zz_verif/nondet"
)

// C05: linter, reference tables and simulator agree.

func agCloneRequest(r *ihttp.Request, c gocontext.Context) *ihttp.Request { return r }

var agScopes = []string{"recv", "hash", "hit", "miss", "pass", "fetch", "error", "deliver", "log"}
var agScopeValues = []context.Scope{context.RecvScope, context.HashScope, context.HitScope, context.MissScope, context.PassScope, context.FetchScope, context.ErrorScope, context.DeliverScope, context.LogScope}

// agLintErrors lints a program and returns its ERROR diagnostics.
func agLintErrors(src string) ([]string, bool) {
	vcl, err := parser.New(lexer.NewFromString(src)).ParseVCL()
	if err != nil {
		return nil, false
	}
	l := linter.New(&config.LinterConfig{})
	l.Lint(vcl, lcontext.New())
	var out []string
	for _, e := range l.Errors {
		if e.Severity == linter.ERROR {
			out = append(out, string(e.Rule)+"|"+e.Message)
		}
	}
	return out, true
}

// ---- reference tables (from the property statement and the Fastly pages the
// repository cites): which scopes allow a statement, which actions a scope allows

func agStatementAllowed(kind, scope string) bool {
	in := func(l ...string) bool {
		for _, s := range l {
			if s == scope {
				return true
			}
		}
		return false
	}
	switch kind {
	case "restart":
		return in("recv", "hit", "fetch", "error", "deliver")
	case "error":
		return in("recv", "hit", "miss", "pass", "fetch")
	case "synthetic", "synthetic.base64":
		return in("error")
	case "esi":
		return in("fetch")
	}
	return false
}

var agActions = []string{"lookup", "pass", "hash", "error", "restart", "deliver", "fetch", "deliver_stale", "hit_for_pass"}

func agActionAllowed(scope, action string) bool {
	allowed := map[string]string{
		"recv": "lookup pass error restart", "hash": "hash", "hit": "deliver pass error restart", "miss": "fetch deliver_stale pass error",
		"pass": "pass", "fetch": "deliver deliver_stale hit_for_pass pass error restart", "error": "deliver deliver_stale restart",
		"deliver": "deliver restart", "log": "deliver",
	}
	for _, a := range strings.Fields(allowed[scope]) {
		if a == action {
			return true
		}
	}
	return false
}

var agStatementText = map[string]string{"restart": "restart;", "error": "error 601;", "synthetic": "synthetic \"x\";", "synthetic.base64": "synthetic.base64 \"eA==\";", "esi": "esi;"}
var AgStatementKinds = []string{"restart", "error", "synthetic", "synthetic.base64", "esi"}

func agStatementNode(kind string) ast.Statement {
	m := func() *ast.Meta { return &ast.Meta{} }
	switch kind {
	case "restart":
		return &ast.RestartStatement{Meta: m()}
	case "error":
		return &ast.ErrorStatement{Meta: m(), Code: &ast.Integer{Meta: m(), Value: 601}}
	case "synthetic":
		return &ast.SyntheticStatement{Meta: m(), Value: &ast.String{Meta: m(), Value: "x"}}
	case "synthetic.base64":
		return &ast.SyntheticBase64Statement{Meta: m(), Value: &ast.String{Meta: m(), Value: "eA=="}}
	default:
		return &ast.EsiStatement{Meta: m()}
	}
}

func agInterp(scope context.Scope) *Interpreter {
	i := New()
	i.ctx = context.New()
	i.process = process.New()
	body := func() io.ReadCloser { return io.NopCloser(strings.NewReader("")) }
	i.ctx.Request = ihttp.WrapRequest(&ghttp.Request{Method: "GET", Header: ghttp.Header{}, URL: &url.URL{Path: "/x"}, Body: body(), RemoteAddr: "192.0.2.7:4711", Host: "example.com", Proto: "HTTP/1.1"})
	i.ctx.BackendRequest = ihttp.WrapRequest(&ghttp.Request{Method: "GET", Header: ghttp.Header{}, URL: &url.URL{Path: "/x"}, Body: body(), RemoteAddr: "192.0.2.7:4711", Host: "example.com", Proto: "HTTP/1.1"})
	i.ctx.BackendResponse = ihttp.WrapResponse(&ghttp.Response{StatusCode: 200, Header: ghttp.Header{}, Body: body()})
	i.ctx.Object = ihttp.WrapResponse(&ghttp.Response{StatusCode: 200, Header: ghttp.Header{}, Body: body()})
	i.ctx.Response = ihttp.WrapResponse(&ghttp.Response{StatusCode: 200, Header: ghttp.Header{}, Body: body()})
	i.ctx.Backend = agBackend
	i.ctx.Backends = map[string]*value.Backend{"F_origin": agBackend}
	i.ctx.Ratecounters["rc_verif"] = value.NewRatecounter(&ast.RatecounterDeclaration{Meta: &ast.Meta{}, Name: &ast.Ident{Meta: &ast.Meta{}, Value: "rc_verif"}})
	i.SetScope(scope)
	return i
}

// VerifScopedStatements: a scope-restricted statement in a subroutine that
// runs in the scopes of a symbolic non-empty set: the linter accepts it
// exactly when every scope of the set allows it (reference table), and then
// the simulator executes it in every one of those scopes.
func VerifScopedStatements() {
	kind := AgStatementKinds[nondet.Param("KIND")]
	// the scope set: one or two scopes (symbolic)
	s1 := nondet.Choice("s1", len(agScopes))
	s2 := nondet.Choice("s2", len(agScopes))
	set := []int{s1}
	if s2 != s1 {
		set = append(set, s2)
	}
	var names []string
	for _, s := range set {
		names = append(names, agScopes[s])
	}
	src := "// @scope: " + strings.Join(names, ", ") + "\nsub user_sub {\n  " + agStatementText[kind] + "\n}\n"
	errs, ok := agLintErrors(src)
	nondet.Assert(ok, "the program does not parse")
	if !ok {
		return
	}
	want := true
	for _, s := range set {
		want = want && agStatementAllowed(kind, agScopes[s])
	}
	accepted := len(errs) == 0
	nondet.Observe("verdict", accepted, want)
	nondet.Assert(accepted == want, "the linter does not accept the "+kind+" statement exactly when every scope of the subroutine allows it")
	for _, s := range set {
		i := agInterp(agScopeValues[s])
		_, _, _, err := i.ProcessBlockStatement([]ast.Statement{agStatementNode(kind)}, DebugPass, false)
		if accepted {
			nondet.Assert(err == nil, "the simulator refuses a "+kind+" statement that the linter accepts in this scope")
		}
		if err == nil {
			nondet.Assert(agStatementAllowed(kind, agScopes[s]), "the simulator executes a "+kind+" statement in a scope that does not allow it")
		}
	}
	nondet.Cover("checked")
}

// VerifReturnActions: return(action) in a subroutine that runs in a symbolic
// set of one or two scopes is accepted by the linter exactly when every scope
// allows the action.  (That the simulator follows the same table is C06.)
func VerifReturnActions() {
	action := agActions[nondet.Choice("action", len(agActions))]
	s1 := nondet.Choice("s1", len(agScopes))
	s2 := nondet.Choice("s2", len(agScopes))
	set := []int{s1}
	if s2 != s1 {
		set = append(set, s2)
	}
	var names []string
	want := true
	for _, s := range set {
		names = append(names, agScopes[s])
		want = want && agActionAllowed(agScopes[s], action)
	}
	src := "// @scope: " + strings.Join(names, ", ") + "\nsub user_sub {\n  return(" + action + ");\n}\n"
	errs, ok := agLintErrors(src)
	nondet.Assert(ok, "the program does not parse")
	if !ok {
		return
	}
	nondet.Observe("verdict", len(errs) == 0, want)
	nondet.Assert((len(errs) == 0) == want, "the linter does not accept return("+action+") exactly when every scope of the subroutine allows it")
	nondet.Cover("checked")
}

// ---- assignment and comparison operators: linter accepts => simulator executes

var AgTypes = []string{"INTEGER", "FLOAT", "STRING", "BOOL", "RTIME", "TIME", "IP"}
var AgAssignOps = []string{"=", "+=", "-=", "*=", "/=", "%=", "|=", "&=", "^=", "<<=", ">>=", "rol=", "ror=", "&&=", "||="}
var AgCompareOps = []string{"==", "!=", "<", ">", "<=", ">="}

func agLiteral(t string) string {
	switch t {
	case "INTEGER":
		return "2"
	case "FLOAT":
		return "2.5"
	case "STRING":
		return "\"192.0.2.1\""
	case "BOOL":
		return "true"
	case "RTIME":
		return "2s"
	}
	return ""
}

// agBenign installs operand values for which no value-dependent runtime error
// can arise (non-zero, small, finite): symbolic within that range.
func agBenign(i *Interpreter, name, t, tag string) {
	switch t {
	case "INTEGER":
		v := nondet.Int64(tag)
		nondet.Assume(v >= 1 && v <= 31)
		i.localVars[name] = &value.Integer{Value: v}
	case "FLOAT":
		v := nondet.Int64(tag)
		nondet.Assume(v >= 1 && v <= 31)
		i.localVars[name] = &value.Float{Value: float64(v) + 0.5}
	case "STRING":
		i.localVars[name] = &value.String{Value: "192.0.2.1"}
	case "BOOL":
		i.localVars[name] = &value.Boolean{Value: nondet.Bool(tag)}
	case "RTIME":
		v := nondet.Int64(tag)
		nondet.Assume(v >= 1 && v <= 31)
		i.localVars[name] = &value.RTime{Value: time.Duration(v) * time.Second}
	case "TIME":
		i.localVars[name] = &value.Time{Value: time.Unix(1767225600, 0).UTC()}
	default:
		i.localVars[name] = &value.IP{Value: []byte{192, 0, 2, 1}}
	}
}

// VerifAssignAgreement: `set var.l OP rhs` with rhs a variable or a literal of
// type RT: if the linter reports no error, the simulator executes the
// statement without error for every benign operand value.
func VerifAssignAgreement() {
	lt, rt := AgTypes[nondet.Param("LT")], AgTypes[nondet.Param("RT")]
	op := AgAssignOps[nondet.Choice("op", len(AgAssignOps))]
	literal := nondet.Bool("literal") && agLiteral(rt) != ""
	rhs := "var.r"
	if literal {
		rhs = agLiteral(rt)
	}
	// the variable operand may have received its value from a literal earlier: it is a variable all the same
	seeded := !literal && agLiteral(rt) != "" && nondet.Bool("from_literal")
	first := ""
	if seeded {
		first = "  set var.r = " + agLiteral(rt) + ";\n"
	}
	src := "sub vcl_recv {\n  #FASTLY RECV\n  declare local var.l " + lt + ";\n  declare local var.r " + rt + ";\n" + first + "  set var.l " + op + " " + rhs + ";\n}\n"
	errs, ok := agLintErrors(src)
	nondet.Assert(ok, "the program does not parse")
	if !ok {
		return
	}
	accepted := len(errs) == 0
	vcl, _ := parser.New(lexer.NewFromString(src)).ParseVCL()
	body := vcl.Statements[0].(*ast.SubroutineDeclaration).Block.Statements
	i := agInterp(context.RecvScope)
	agBenign(i, "var.l", lt, "l")
	agBenign(i, "var.r", rt, "r")
	at := 2
	if seeded {
		nondet.Assert(i.ProcessSetStatement(body[2].(*ast.SetStatement)) == nil, "assigning a literal to a variable of its own type fails")
		at = 3
	}
	err := i.ProcessSetStatement(body[at].(*ast.SetStatement))
	nondet.Observe("cell", accepted, err != nil, literal)
	if accepted {
		nondet.Assert(err == nil, "the simulator fails on an assignment the linter accepts ("+lt+" "+op+" "+rt+")")
		nondet.Cover("accepted")
	} else {
		nondet.Cover("rejected")
	}
}

// VerifCompareAgreement: `if (var.l OP rhs)`: linter accepts => the simulator
// evaluates the condition without error.
func VerifCompareAgreement() {
	lt, rt := AgTypes[nondet.Param("LT")], AgTypes[nondet.Param("RT")]
	op := AgCompareOps[nondet.Choice("op", len(AgCompareOps))]
	literal := nondet.Bool("literal") && agLiteral(rt) != ""
	rhs := "var.r"
	if literal {
		rhs = agLiteral(rt)
	}
	src := "sub vcl_recv {\n  #FASTLY RECV\n  declare local var.l " + lt + ";\n  declare local var.r " + rt + ";\n  if (var.l " + op + " " + rhs + ") {\n    set req.http.A = \"1\";\n  }\n}\n"
	errs, ok := agLintErrors(src)
	nondet.Assert(ok, "the program does not parse")
	if !ok {
		return
	}
	accepted := len(errs) == 0
	vcl, _ := parser.New(lexer.NewFromString(src)).ParseVCL()
	body := vcl.Statements[0].(*ast.SubroutineDeclaration).Block.Statements
	i := agInterp(context.RecvScope)
	agBenign(i, "var.l", lt, "l")
	agBenign(i, "var.r", rt, "r")
	_, _, _, err := i.ProcessBlockStatement(body[2:], DebugPass, false)
	nondet.Observe("cell", accepted, err != nil, literal)
	if accepted {
		nondet.Assert(err == nil, "the simulator fails on a comparison the linter accepts ("+lt+" "+op+" "+rt+")")
		nondet.Cover("accepted")
	} else {
		nondet.Cover("rejected")
	}
}

// ---- predefined variables: reference table (YAML) vs linter vs simulator

var agBackend = &value.Backend{Healthy: &atomic.Bool{}, Value: &ast.BackendDeclaration{Meta: &ast.Meta{}, Name: &ast.Ident{Meta: &ast.Meta{}, Value: "F_origin"},
	Properties: []*ast.BackendProperty{{Meta: &ast.Meta{}, Key: &ast.Ident{Meta: &ast.Meta{}, Value: "host"}, Value: &ast.String{Meta: &ast.Meta{}, Value: "example.com"}}}}}

const agBackendDecl = "backend F_origin {\n  .host = \"example.com\";\n}\nratecounter rc_verif {}\n"

func agOn(on []string, scope string) bool {
	for _, o := range on {
		if strings.ToLower(o) == scope {
			return true
		}
	}
	return false
}

// agRun parses src, lints it, and executes the body of its (last) subroutine in scope si.
func agLintAndRun(src string, si int, prepare func(i *Interpreter)) (accepted bool, err error, ok bool) {
	errs, ok := agLintErrors(src)
	if !ok {
		return false, nil, false
	}
	vcl, _ := parser.New(lexer.NewFromString(src)).ParseVCL()
	var body []ast.Statement
	for _, st := range vcl.Statements {
		if sub, is := st.(*ast.SubroutineDeclaration); is {
			body = sub.Block.Statements
		}
	}
	i := agInterp(agScopeValues[si])
	if prepare != nil {
		prepare(i)
	}
	_, _, _, err = i.ProcessBlockStatement(body, DebugPass, false)
	return len(errs) == 0, err, true
}

// agHostBound: variables whose simulator implementation needs host facilities
// the engine does not model (user-agent database, xid, md5 of the VCL, network
// interfaces): for these only the linter is compared with the table.
func agHostBound(name string) bool {
	for _, p := range []string{"client.bot.", "client.browser.", "client.class.", "client.display.", "client.os.", "client.platform.", "req.xid", "req.vcl.md5", "server.ip"} {
		if strings.HasPrefix(name, p) {
			return true
		}
	}
	return false
}

func agErrLine(err error) string {
	if err == nil {
		return ""
	}
	return strings.Split(err.Error(), "\n")[0]
}

// VerifPredefinedGet: reading predefined variable V (any of the bundled
// reference table) in scope SCOPE: the linter accepts the read exactly when
// the table lists the scope, and the simulator then yields a value.
func VerifPredefinedGet() {
	si := nondet.Param("SCOPE")
	scope := agScopes[si]
	v := zzPvars[nondet.Choice("v", len(zzPvars))]
	name := strings.Replace(v.name, "%any%", "X-Verif", 1)
	if strings.HasPrefix(v.name, "backend.%any%") {
		name = strings.Replace(v.name, "%any%", "F_origin", 1)
	}
	if strings.HasPrefix(v.name, "ratecounter.%any%") {
		name = strings.Replace(v.name, "%any%", "rc_verif", 1)
	}
	if v.get == "" || strings.HasPrefix(v.name, "director.%any%") {
		nondet.Cover("not-readable")
		return
	}
	want := agOn(v.on, scope)
	src := agBackendDecl + "sub vcl_" + scope + " {\n  #FASTLY " + strings.ToUpper(scope) + "\n  log " + name + ";\n}\n"
	if agHostBound(name) {
		errs, ok := agLintErrors(src)
		nondet.Assert(ok && (len(errs) == 0) == want, "reading "+name+" in vcl_"+scope+": the linter's verdict differs from the reference table")
		nondet.Cover("linter-only")
		return
	}
	accepted, err, ok := agLintAndRun(src, si, nil)
	nondet.Assert(ok, "the program does not parse")
	if !ok {
		return
	}
	nondet.Observe("get", name, scope, accepted, want, agErrLine(err))
	nondet.Assert(accepted == want, "reading "+name+" in vcl_"+scope+": the linter's verdict differs from the reference table")
	if accepted {
		nondet.Assert(err == nil, "reading "+name+" in vcl_"+scope+": accepted by the linter, fails in the simulator")
		nondet.Cover("accepted")
	} else {
		nondet.Cover("rejected")
	}
}

func agSetValue(i *Interpreter, t string) {
	switch t {
	case "INTEGER":
		i.localVars["var.v"] = &value.Integer{Value: nondet.Int64("val")}
	case "STRING":
		i.localVars["var.v"] = &value.String{Value: nondet.String("val", 2)}
	case "BOOL":
		i.localVars["var.v"] = &value.Boolean{Value: nondet.Bool("val")}
	case "RTIME":
		i.localVars["var.v"] = &value.RTime{Value: time.Duration(nondet.Int64("val"))}
	}
}

// VerifPredefinedSet: `set V = var.v` (var.v of V's declared set type, any
// value) and `unset V` in scope SCOPE: accepted by the linter exactly when the
// table allows it, and then executed by the simulator.
func VerifPredefinedSet() {
	si := nondet.Param("SCOPE")
	scope := agScopes[si]
	v := zzPvars[nondet.Choice("v", len(zzPvars))]
	unset := nondet.Bool("unset")
	name := strings.Replace(v.name, "%any%", "X-Verif", 1)
	if strings.Contains(v.name, "%any%") && !strings.Contains(v.name, ".http.") {
		nondet.Cover("skipped")
		return
	}
	var stmt, decl string
	want := agOn(v.on, scope)
	if unset {
		want = want && v.unset
		stmt = "unset " + name + ";"
	} else {
		want = want && v.set != ""
		t := v.set
		if t == "" {
			t = v.get
		}
		switch t {
		case "INTEGER", "STRING", "BOOL", "RTIME":
			decl = "declare local var.v " + t + ";\n  "
			stmt = "set " + name + " = var.v;"
		case "REQBACKEND", "BACKEND":
			stmt = "set " + name + " = F_origin;"
		default:
			nondet.Cover("skipped")
			return
		}
	}
	src := agBackendDecl + "sub vcl_" + scope + " {\n  #FASTLY " + strings.ToUpper(scope) + "\n  " + decl + stmt + "\n}\n"
	if agHostBound(name) {
		errs, ok := agLintErrors(src)
		nondet.Assert(ok && (len(errs) == 0) == want, "setting / unsetting "+name+" in vcl_"+scope+": the linter's verdict differs from the reference table")
		nondet.Cover("linter-only")
		return
	}
	accepted, err, ok := agLintAndRun(src, si, func(i *Interpreter) {
		if decl != "" {
			agSetValue(i, strings.Fields(decl)[3][:len(strings.Fields(decl)[3])-1])
		}
	})
	nondet.Assert(ok, "the program does not parse")
	if !ok {
		return
	}
	nondet.Observe("set", name, scope, unset, accepted, want, agErrLine(err))
	what := "setting "
	if unset {
		what = "unsetting "
	}
	nondet.Assert(accepted == want, what+name+" in vcl_"+scope+": the linter's verdict differs from the reference table")
	if accepted {
		nondet.Assert(err == nil, what+name+" in vcl_"+scope+": accepted by the linter, fails in the simulator")
		nondet.Cover("accepted")
	} else {
		nondet.Cover("rejected")
	}
}

// VerifPredefinedTwoScopes: a read, write or unset of a predefined variable in
// a user subroutine annotated with two scopes is accepted by the linter
// exactly when the reference table allows it in both; the variables are one
// representative per distinct (access, scope set) of the table.
func VerifPredefinedTwoScopes() {
	type item struct {
		v      zzPvar
		access string
	}
	var items []item
	seen := map[string]bool{}
	add := func(v zzPvar, access string) {
		k := access + "|" + strings.Join(v.on, ",")
		if !seen[k] && !strings.Contains(v.name, "%any%") && !agHostBound(v.name) {
			seen[k] = true
			items = append(items, item{v, access})
		}
	}
	for _, v := range zzPvars {
		if v.get != "" {
			add(v, "get")
		}
		switch v.set {
		case "INTEGER", "STRING", "BOOL", "RTIME":
			add(v, "set")
		}
	}
	for _, v := range zzPvars { // every variable that can be unset, the header families with a concrete name
		if v.unset {
			w := v
			w.name = strings.Replace(v.name, "%any%", "X-Verif", 1)
			items = append(items, item{w, "unset"})
		}
	}
	it := items[nondet.Choice("item", len(items))]
	s1 := nondet.Param("SCOPE")
	s2 := nondet.Choice("s2", len(agScopes))
	nondet.Assume(s2 != s1)
	want := agOn(it.v.on, agScopes[s1]) && agOn(it.v.on, agScopes[s2])
	var stmt string
	switch it.access {
	case "get":
		stmt = "log " + it.v.name + ";"
	case "set":
		stmt = "declare local var.v " + it.v.set + ";\n  set " + it.v.name + " = var.v;"
	default:
		stmt = "unset " + it.v.name + ";"
	}
	src := agBackendDecl + "// @scope: " + agScopes[s1] + ", " + agScopes[s2] + "\nsub user_sub {\n  " + stmt + "\n}\n"
	errs, ok := agLintErrors(src)
	nondet.Assert(ok, "the program does not parse")
	if !ok {
		return
	}
	nondet.Observe("two", it.v.name, it.access, agScopes[s1], agScopes[s2], len(errs) == 0, want)
	nondet.Assert((len(errs) == 0) == want, it.access+" of "+it.v.name+" in a subroutine of vcl_"+agScopes[s1]+" and vcl_"+agScopes[s2]+": the linter's verdict is not the conjunction of the two scopes' table entries")
	nondet.Cover("checked")
}
