package assign

//verif:pkg interpreter/assign

import (
	"math/bits"
	"time"

	"github.com/ysugimoto/falco/v2/interpreter/value"
	"github.com/ysugimoto/falco/v2/zz_verif/nondet"
)

// C07-b: assignment arithmetic against a reference written from the Fastly
// operator documentation quoted in the property: within range the result is
// the mathematical one (integers: + - * on int64, / and % truncated toward
// zero, | & ^, << >> for 0 <= n < 64, rol/ror = rotation of the 64-bit
// pattern; IEEE-754 on floats; durations add and subtract; && || on
// Booleans).  Outside the range (overflow, non-finite operands) nothing is
// asserted: the statement fixes in-range results only.

func arPlain(n string) *value.Integer { return &value.Integer{Value: nondet.Int64(n)} }

func addOverflows(a, b int64) bool { s := a + b; return (a >= 0) == (b >= 0) && (s >= 0) != (a >= 0) }
func subOverflows(a, b int64) bool { s := a - b; return (a >= 0) != (b >= 0) && (s >= 0) != (a >= 0) }
func mulOverflows(a, b int64) bool {
	if a == 0 || b == 0 {
		return false
	}
	hi, lo := bits.Mul64(uint64(abs64(a)), uint64(abs64(b)))
	if hi != 0 {
		return true
	}
	neg := (a < 0) != (b < 0)
	if neg {
		return lo > 1<<63
	}
	return lo > 1<<63-1
}
func abs64(a int64) int64 {
	if a < 0 {
		return -a
	}
	return a
}

var ArIntOps = []string{"+=", "-=", "*=", "/=", "%=", "|=", "&=", "^=", "<<=", ">>=", "rol=", "ror="}

// VerifIntArith: INTEGER op= INTEGER for finite operands.
func VerifIntArith() {
	op := ArIntOps[nondet.Param("OP")]
	l, r := arPlain("a"), arPlain("b")
	a, b := l.Value, r.Value
	var err error
	var want int64
	defined := true
	switch op {
	case "+=":
		err = Addition(l, r)
		want, defined = a+b, !addOverflows(a, b)
	case "-=":
		err = Subtraction(l, r)
		want, defined = a-b, !subOverflows(a, b)
	case "*=":
		err = Multiplication(l, r)
		nondet.Assume(a >= -(1<<31) && a < 1<<31 && b >= -(1<<31) && b < 1<<31) // 32-bit operands: every product is in range (64-bit symbolic products do not finish in the solver)
		want = a * b
	case "/=":
		err = Division(l, r)
		defined = b != 0 && !(a == -1<<63 && b == -1)
		if defined {
			want = a / b
		}
	case "%=":
		err = Remainder(l, r)
		defined = b != 0 && !(a == -1<<63 && b == -1)
		if defined {
			want = a % b
		}
	case "|=":
		err = BitwiseOR(l, r)
		want = a | b
	case "&=":
		err = BitwiseAND(l, r)
		want = a & b
	case "^=":
		err = BitwiseXOR(l, r)
		want = a ^ b
	case "<<=":
		err = LeftShift(l, r)
		defined = b >= 0 && b < 64
		if defined {
			want = int64(uint64(a) << uint(b))
		}
	case ">>=":
		err = RightShift(l, r)
		defined = b >= 0 && b < 64
		if defined {
			want = a >> uint(b)
		}
	case "rol=":
		err = LeftRotate(l, r)
		defined = b >= 0 && b <= 64
		if defined {
			want = int64(bits.RotateLeft64(uint64(a), int(b%64)))
		}
	case "ror=":
		err = RightRotate(l, r)
		defined = b >= 0 && b <= 64
		if defined {
			want = int64(bits.RotateLeft64(uint64(a), -int(b%64)))
		}
	}
	if !defined {
		nondet.Cover("outside")
		return
	}
	nondet.Observe("res", l.Value, err != nil)
	nondet.Assert(err == nil, "INTEGER "+op+" INTEGER fails on in-range operands")
	nondet.Assert(!l.IsNAN && !l.IsPositiveInf && !l.IsNegativeInf, "INTEGER "+op+" INTEGER flags an in-range result as non-finite")
	nondet.Assert(l.Value == want, "INTEGER "+op+" INTEGER is not the mathematical result")
	nondet.Assert(r.Value == b, "INTEGER "+op+" INTEGER changes its right operand")
	nondet.Cover("checked")
}

var ArFloatOps = []string{"+=", "-=", "*=", "/="}

// VerifFloatArith: FLOAT op= FLOAT is IEEE-754 double arithmetic whenever
// operands and result are finite.
func VerifFloatArith() {
	op := ArFloatOps[nondet.Param("OP")]
	a, b := nondet.Float64("a"), nondet.Float64("b")
	l, r := &value.Float{Value: a}, &value.Float{Value: b}
	fin := func(x float64) bool { return x == x && x-x == 0 }
	nondet.Assume(fin(a) && fin(b))
	var err error
	var want float64
	switch op {
	case "+=":
		err, want = Addition(l, r), a+b
	case "-=":
		err, want = Subtraction(l, r), a-b
	case "*=":
		err, want = Multiplication(l, r), a*b
	default:
		nondet.Assume(b != 0)
		err, want = Division(l, r), a/b
	}
	if !fin(want) {
		nondet.Cover("outside")
		return
	}
	nondet.Assert(err == nil, "FLOAT "+op+" FLOAT fails on finite operands")
	nondet.Assert(!l.IsNAN && !l.IsPositiveInf && !l.IsNegativeInf, "FLOAT "+op+" FLOAT flags a finite result as non-finite")
	nondet.Assert(l.Value == want, "FLOAT "+op+" FLOAT is not the IEEE-754 result")
	nondet.Cover("checked")
}

// VerifRTimeBool: RTIME +=/-= RTIME add and subtract durations; BOOL &&=/||= are conjunction and disjunction; = copies.
func VerifRTimeBool() {
	x, y := nondet.Int64("x"), nondet.Int64("y")
	switch nondet.Choice("case", 6) {
	case 0:
		l, r := &value.RTime{Value: time.Duration(x)}, &value.RTime{Value: time.Duration(y)}
		nondet.Assume(!addOverflows(x, y))
		nondet.Assert(Addition(l, r) == nil && int64(l.Value) == x+y, "RTIME += RTIME is not the sum")
	case 1:
		l, r := &value.RTime{Value: time.Duration(x)}, &value.RTime{Value: time.Duration(y)}
		nondet.Assume(!subOverflows(x, y))
		nondet.Assert(Subtraction(l, r) == nil && int64(l.Value) == x-y, "RTIME -= RTIME is not the difference")
	case 2:
		p, q := nondet.Bool("p"), nondet.Bool("q")
		l, r := &value.Boolean{Value: p}, &value.Boolean{Value: q}
		nondet.Assert(LogicalAND(l, r) == nil && l.Value == (p && q), "BOOL &&= BOOL is not the conjunction")
	case 3:
		p, q := nondet.Bool("p"), nondet.Bool("q")
		l, r := &value.Boolean{Value: p}, &value.Boolean{Value: q}
		nondet.Assert(LogicalOR(l, r) == nil && l.Value == (p || q), "BOOL ||= BOOL is not the disjunction")
	case 4:
		l, r := &value.Integer{Value: x}, &value.Integer{Value: y}
		nondet.Assert(Assign(l, r) == nil && l.Value == y && r.Value == y, "INTEGER = INTEGER does not copy the value")
	default:
		// a not-set string reads as empty once assigned to a STRING (local variable semantics are in C07-c)
		s := nondet.StringIn("s", 1, 0x20, 0x7e)
		l, r := &value.String{Value: "old"}, &value.String{Value: s}
		nondet.Assert(Assign(l, r) == nil && l.Value == s, "STRING = STRING does not copy the value")
	}
	nondet.Cover("checked")
}

// ---- mixed operand types.  Reference: the right operand is converted to the
// left operand's type (FLOAT -> INTEGER by truncation toward zero, INTEGER ->
// FLOAT exactly, RTIME -> INTEGER / FLOAT as its number of seconds, INTEGER /
// FLOAT -> RTIME as that many whole seconds), then the left type's operation
// is applied; INTEGER *= FLOAT alone multiplies in FLOAT and truncates the
// product.  Operands are variables (not literals), finite, and small enough
// (|x| <= 2^31, durations |d| <= 2^52 ns) for every intermediate to be exact
// and in range, so the reference is unambiguous.

var ArMixedCells = []string{
	"INTEGER += FLOAT", "INTEGER -= FLOAT", "INTEGER *= FLOAT", "INTEGER /= FLOAT",
	"FLOAT += INTEGER", "FLOAT -= INTEGER", "FLOAT *= INTEGER", "FLOAT /= INTEGER",
	"INTEGER += RTIME", "INTEGER -= RTIME", "FLOAT += RTIME", "FLOAT -= RTIME",
	"RTIME += INTEGER", "RTIME -= INTEGER", "RTIME *= INTEGER", "RTIME /= INTEGER",
	"RTIME += FLOAT", "RTIME -= FLOAT", "RTIME *= FLOAT", "RTIME /= FLOAT",
}

func arSmallInt(n string) int64 {
	v := nondet.Int64(n)
	nondet.Assume(v >= -(1<<31) && v <= 1<<31)
	return v
}

func arSmallFloat(n string) float64 {
	f := nondet.Float64(n)
	nondet.Assume(f >= -2147483648.0 && f <= 2147483648.0)
	return f
}

func arApply(op string, l, r value.Value) error {
	switch op {
	case "+=":
		return Addition(l, r)
	case "-=":
		return Subtraction(l, r)
	case "*=":
		return Multiplication(l, r)
	}
	return Division(l, r)
}

func VerifMixedArith() {
	cell := ArMixedCells[nondet.Param("CELL")]
	lt, op, rt := cell[:len(cell)-len(" += FLOAT")+0], "", ""
	_ = lt
	var f [3]string
	k := 0
	for _, w := range []byte(cell) {
		if w == ' ' {
			k++
			continue
		}
		f[k] += string(w)
	}
	lt, op, rt = f[0], f[1], f[2]
	const sec = int64(1000000000)
	switch lt {
	case "INTEGER":
		a := arSmallInt("a")
		l := &value.Integer{Value: a}
		var want int64
		var r value.Value
		switch rt {
		case "FLOAT":
			x := arSmallFloat("x")
			r = &value.Float{Value: x}
			t := int64(x) // truncation toward zero
			switch op {
			case "+=":
				want = a + t
			case "-=":
				want = a - t
			case "*=":
				p := float64(a) * x
				nondet.Assume(p >= -9.0e18 && p <= 9.0e18)
				want = int64(p)
			default:
				nondet.Assume(t != 0)
				want = a / t
			}
		default: // RTIME, whole and fractional seconds
			d := nondet.Int64("d")
			nondet.Assume(d >= -(1<<52) && d <= 1<<52)
			r = &value.RTime{Value: time.Duration(d)}
			if op == "+=" {
				want = a + d/sec
			} else {
				want = a - d/sec
			}
		}
		err := arApply(op, l, r)
		nondet.Assert(err == nil, cell+" fails on in-range operands")
		nondet.Assert(!l.IsNAN && !l.IsPositiveInf && !l.IsNegativeInf, cell+" flags an in-range result")
		nondet.Assert(l.Value == want, cell+" is not the reference result")
	case "FLOAT":
		x := arSmallFloat("x")
		l := &value.Float{Value: x}
		var want float64
		var r value.Value
		switch rt {
		case "INTEGER":
			b := arSmallInt("b")
			r = &value.Integer{Value: b}
			switch op {
			case "+=":
				want = x + float64(b)
			case "-=":
				want = x - float64(b)
			case "*=":
				want = x * float64(b)
			default:
				nondet.Assume(b != 0)
				want = x / float64(b)
			}
		default: // RTIME of whole seconds
			s := []int64{-86400, -90, -1, 0, 1, 2, 3600, 31536000}[nondet.Choice("s", 8)] // (symbolic seconds make the solver multiply and divide by 10^9: unknown at 60 s)
			r = &value.RTime{Value: time.Duration(s * sec)}
			if op == "+=" {
				want = x + float64(s)
			} else {
				want = x - float64(s)
			}
		}
		err := arApply(op, l, r)
		nondet.Assert(err == nil, cell+" fails on in-range operands")
		nondet.Assert(!l.IsNAN && !l.IsPositiveInf && !l.IsNegativeInf, cell+" flags an in-range result")
		nondet.Assert(l.Value == want, cell+" is not the reference result")
	default: // RTIME
		d := nondet.Int64("d")
		nondet.Assume(d >= -(1<<52) && d <= 1<<52)
		l := &value.RTime{Value: time.Duration(d)}
		var n int64
		var r value.Value
		if rt == "INTEGER" {
			n = nondet.Int64("b")
			nondet.Assume(n >= -1024 && n <= 1024)
			r = &value.Integer{Value: n}
		} else {
			x := nondet.Float64("x")
			nondet.Assume(x >= -1024.0 && x <= 1024.0)
			r = &value.Float{Value: x}
			n = int64(x)
		}
		var want int64
		switch op {
		case "+=":
			want = d + n*sec
		case "-=":
			want = d - n*sec
		case "*=":
			want = d * n
		default:
			nondet.Assume(n != 0)
			want = d / n
		}
		err := arApply(op, l, r)
		nondet.Assert(err == nil, cell+" fails on in-range operands")
		nondet.Assert(int64(l.Value) == want, cell+" is not the reference result")
	}
	nondet.Cover("checked")
}
