package operator

//verif:pkg interpreter/operator

import (
	"net"
	"time"

	"github.com/ysugimoto/falco/v2/ast"
	"github.com/ysugimoto/falco/v2/interpreter/value"
	"github.com/ysugimoto/falco/v2/zz_verif/nondet"
)

var OpKinds = []string{"INTEGER", "FLOAT", "RTIME", "BOOL", "STRING", "TIME", "IP"}

func opValue(kind, n string) value.Value {
	switch kind {
	case "INTEGER":
		return &value.Integer{Value: nondet.Int64(n), Literal: nondet.Bool(n + "_lit"), IsNAN: nondet.Bool(n + "_nan")}
	case "FLOAT":
		return &value.Float{Value: nondet.Float64(n), Literal: nondet.Bool(n + "_lit"), IsNAN: nondet.Bool(n + "_nan")}
	case "RTIME":
		return &value.RTime{Value: time.Duration(nondet.Int64(n)), Literal: nondet.Bool(n + "_lit")}
	case "BOOL":
		return &value.Boolean{Value: nondet.Bool(n), Literal: nondet.Bool(n + "_lit")}
	case "STRING":
		ln := nondet.IntRange(n+"_len", 0, 2)
		s := &value.String{Value: nondet.StringIn(n, ln, 0x20, 0x7e), Literal: nondet.Bool(n + "_lit"), IsNotSet: nondet.Bool(n + "_notset")}
		if s.IsNotSet {
			s.Value = "" // representation invariant of the interpreter: a not-set string holds no text
		}
		return s
	case "TIME":
		secs := []int64{0, 1767225600, 1767225601, -1}
		return &value.Time{Value: time.Unix(secs[nondet.Choice(n, len(secs))], 0).UTC()}
	default:
		ips := [][]byte{{10, 0, 0, 1}, {10, 0, 0, 2}, {0x20, 0x01, 0x0d, 0xb8, 0, 0, 0, 0, 0, 0, 0, 0, 0, 0, 0, 1}}
		return &value.IP{Value: ips[nondet.Choice(n, len(ips))], Literal: nondet.Bool(n + "_lit"), IsNotSet: nondet.Bool(n + "_notset")}
	}
}

func opBool(v value.Value, err error) (val, ok bool) {
	if err != nil {
		return false, false
	}
	b, isBool := v.(*value.Boolean)
	if !isBool {
		return false, false
	}
	return b.Value, true
}

// VerifDuality (C07-a): for every pair of operand values of kinds LT, RT, where
// both sides of a law are defined (neither comparison is a type error):
//   a != b  <=>  !(a == b)         a < b  <=>  b > a        a <= b  <=>  b >= a
//   a <= b  <=>  a < b or a == b   (for values that are not NaN)
// and a not-set string equals nothing.
func VerifDuality() {
	lt, rt := OpKinds[nondet.Param("LT")], OpKinds[nondet.Param("RT")]
	a, b := opValue(lt, "a"), opValue(rt, "b")
	if lt == "IP" && rt == "STRING" {
		// address parsing runs in the host: exemplar spellings, symbolic flags
		texts := []string{"10.0.0.1", "10.0.0.2", "x", ""}
		b = &value.String{Value: texts[nondet.Choice("btext", len(texts))], Literal: nondet.Bool("b_lit"), IsNotSet: nondet.Bool("b_notset")}
		if b.(*value.String).IsNotSet {
			b.(*value.String).Value = ""
		}
	}
	if lt == "STRING" && rt == "IP" {
		texts := []string{"10.0.0.1", "10.0.0.2", "x", ""}
		a = &value.String{Value: texts[nondet.Choice("atext", len(texts))], Literal: nondet.Bool("a_lit"), IsNotSet: nondet.Bool("a_notset")}
		if a.(*value.String).IsNotSet {
			a.(*value.String).Value = ""
		}
	}
	eq, eqOK := opBool(Equal(a, b))
	ne, neOK := opBool(NotEqual(a, b))
	nondet.Assert(eqOK == neOK, "== is defined exactly when != is")
	if eqOK && neOK {
		nondet.Cover("eq-defined")
		nondet.Assert(ne == !eq, "a != b is not the negation of a == b")
	}
	if sa, ok := a.(*value.String); ok && eqOK {
		if sa.IsNotSet {
			nondet.Assert(!eq, "a not-set string compares equal to something")
		}
	}
	if sb, ok := b.(*value.String); ok && eqOK {
		if sb.IsNotSet {
			nondet.Assert(!eq, "something compares equal to a not-set string")
		}
	}
	lt1, lt1OK := opBool(LessThan(a, b))
	gt2, gt2OK := opBool(GreaterThan(b, a))
	if lt1OK && gt2OK {
		nondet.Cover("lt-defined")
		nondet.Assert(lt1 == gt2, "a < b differs from b > a")
	}
	le1, le1OK := opBool(LessThanEqual(a, b))
	ge2, ge2OK := opBool(GreaterThanEqual(b, a))
	if le1OK && ge2OK {
		nondet.Assert(le1 == ge2, "a <= b differs from b >= a")
	}
	gt1, gt1OK := opBool(GreaterThan(a, b))
	ge1, ge1OK := opBool(GreaterThanEqual(a, b))
	if gt1OK && ge1OK && lt1OK && le1OK {
		nondet.Assert(!(gt1 && lt1), "a > b and a < b at once")
		nondet.Assert(!gt1 || ge1, "a > b without a >= b")
		nondet.Assert(!lt1 || le1, "a < b without a <= b")
	}
	nondet.Cover("checked")
}

// ---- C07-e: ACL matching

type aclNet struct {
	ip   string
	mask int // -1: no mask written
	a    [4]byte
	bits int
}

// a family of nested and disjoint networks: every containment relation occurs
var aclNets = []aclNet{
	{"10.0.0.0", 8, [4]byte{10, 0, 0, 0}, 8},
	{"10.1.0.0", 16, [4]byte{10, 1, 0, 0}, 16},
	{"10.1.2.0", 24, [4]byte{10, 1, 2, 0}, 24},
	{"10.1.2.3", -1, [4]byte{10, 1, 2, 3}, 32},
	{"0.0.0.0", 0, [4]byte{0, 0, 0, 0}, 0},
	{"192.168.0.0", 16, [4]byte{192, 168, 0, 0}, 16},
	{"10.1.2.3", 32, [4]byte{10, 1, 2, 3}, 32},
}

func aclContains(n aclNet, ip [4]byte) bool {
	addr := uint32(ip[0])<<24 | uint32(ip[1])<<16 | uint32(ip[2])<<8 | uint32(ip[3])
	net := uint32(n.a[0])<<24 | uint32(n.a[1])<<16 | uint32(n.a[2])<<8 | uint32(n.a[3])
	if n.bits == 0 {
		return true
	}
	m := ^uint32(0) << uint(32-n.bits)
	return addr&m == net&m
}

// VerifAcl: an address matches an ACL exactly when the most specific entry
// (longest prefix) containing it is not negated; entries without a mask are
// single hosts; no containing entry means no match; the order of the entries
// does not matter.  The queried address is fully symbolic (all 2^32 values),
// the E entries are symbolic choices from the nested family with symbolic
// negation, in a symbolic order.
func VerifAcl() {
	e := nondet.Param("E")
	m := func() *ast.Meta { return &ast.Meta{} }
	var ip [4]byte
	b := nondet.Bytes("ip", 4)
	copy(ip[:], b)
	decl := &ast.AclDeclaration{Meta: m(), Name: &ast.Ident{Meta: m(), Value: "a"}}
	names := []string{"e0", "e1", "e2", "e3"}
	best, bestNeg := -1, false
	conflict := false
	for k := 0; k < e; k++ {
		n := aclNets[nondet.Choice(names[k], len(aclNets))]
		neg := nondet.Bool(names[k] + "_neg")
		c := &ast.AclCidr{Meta: m(), IP: &ast.IP{Meta: m(), Value: n.ip}}
		if n.mask >= 0 {
			c.Mask = &ast.Integer{Meta: m(), Value: int64(n.mask)}
		}
		if neg || nondet.Bool(names[k]+"_hasinv") {
			c.Inverse = &ast.Boolean{Meta: m(), Value: neg}
		}
		decl.CIDRs = append(decl.CIDRs, c)
		if aclContains(n, ip) {
			if n.bits > best {
				best, bestNeg, conflict = n.bits, neg, false
			} else if n.bits == best && neg != bestNeg {
				conflict = true // the same prefix listed both plain and negated: the statement does not fix the answer
			}
		}
	}
	if conflict {
		return
	}
	want := best >= 0 && !bestNeg
	got, err := matchesAcl(value.Acl{Value: decl}, net.IP(ip[:]))
	nondet.Observe("result", got, err != nil)
	nondet.Assert(err == nil, "matching a well-formed ACL fails")
	if err != nil {
		return
	}
	nondet.Assert(got == want, "the ACL match is not decided by the longest containing prefix and its negation")
	// the same through the operator with an IP value
	v, err2 := Regex(nil, &value.IP{Value: net.IP(ip[:])}, &value.Acl{Value: decl})
	r, ok := opBool(v, err2)
	nondet.Assert(ok && r == want, "IP ~ ACL disagrees with the longest-prefix rule")
	nr, ok2 := opBool(NotRegex(nil, &value.IP{Value: net.IP(ip[:])}, &value.Acl{Value: decl}))
	nondet.Assert(ok2 && nr == !want, "IP !~ ACL is not the negation of IP ~ ACL")
	nondet.Cover("checked")
}

// VerifAcl6: IPv6 entries without a mask are single hosts (/128).
func VerifAcl6() {
	m := func() *ast.Meta { return &ast.Meta{} }
	b := nondet.Bytes("ip", 16)
	ip := make(net.IP, 16)
	copy(ip, b)
	host := net.IP{0x20, 0x01, 0x0d, 0xb8, 0, 0, 0, 0, 0, 0, 0, 0, 0, 0, 0, 1}
	decl := &ast.AclDeclaration{Meta: m(), Name: &ast.Ident{Meta: m(), Value: "a"}, CIDRs: []*ast.AclCidr{
		{Meta: m(), IP: &ast.IP{Meta: m(), Value: "2001:db8::1"}},
	}}
	var diff byte
	for i := range host {
		diff |= ip[i] ^ host[i]
	}
	same := diff == 0
	got, err := matchesAcl(value.Acl{Value: decl}, ip)
	nondet.Assert(err == nil, "matching an IPv6 host entry fails")
	if err != nil {
		return
	}
	nondet.Assert(got == same, "an IPv6 entry without a mask does not match exactly its own address")
	nondet.Cover("checked")
}

// ---- IPv6 family: the same longest-prefix rule over 128-bit addresses

type aclNet6 struct {
	ip   string
	mask int // -1: no mask written (single host)
	a    [16]byte
	bits int
}

var aclNets6 = []aclNet6{
	{"::", 0, [16]byte{}, 0},
	{"2001:db8::", 32, [16]byte{0x20, 0x01, 0x0d, 0xb8}, 32},
	{"2001:db8:1::", 48, [16]byte{0x20, 0x01, 0x0d, 0xb8, 0, 1}, 48},
	{"2001:db8:1:2::", 64, [16]byte{0x20, 0x01, 0x0d, 0xb8, 0, 1, 0, 2}, 64},
	{"2001:db8:1:2::3", -1, [16]byte{0x20, 0x01, 0x0d, 0xb8, 0, 1, 0, 2, 0, 0, 0, 0, 0, 0, 0, 3}, 128},
	{"2001:db8:1:2::3", 128, [16]byte{0x20, 0x01, 0x0d, 0xb8, 0, 1, 0, 2, 0, 0, 0, 0, 0, 0, 0, 3}, 128},
	{"fe80::", 10, [16]byte{0xfe, 0x80}, 10},
	{"2001:db8:1:2::2", 127, [16]byte{0x20, 0x01, 0x0d, 0xb8, 0, 1, 0, 2, 0, 0, 0, 0, 0, 0, 0, 2}, 127},
}

func aclContains6(n aclNet6, ip [16]byte) bool {
	full, rest := n.bits/8, n.bits%8
	for i := 0; i < full; i++ {
		if ip[i] != n.a[i] {
			return false
		}
	}
	if rest > 0 {
		m := byte(0xff) << uint(8-rest)
		if ip[full]&m != n.a[full]&m {
			return false
		}
	}
	return true
}

// VerifAcl6Family: every 128-bit address (IPv4-mapped ones excluded) against
// E entries chosen symbolically, with symbolic negation, from a nested IPv6
// family (/0, /10, /32, /48, /64, /127, /128 and a host without a mask).
func VerifAcl6Family() {
	e := nondet.Param("E")
	m := func() *ast.Meta { return &ast.Meta{} }
	var ip [16]byte
	b := nondet.Bytes("ip", 16)
	copy(ip[:], b)
	var lead byte
	for i := 0; i < 10; i++ {
		lead |= ip[i]
	}
	nondet.Assume(!(lead == 0 && ip[10] == 0xff && ip[11] == 0xff)) // not an IPv4-mapped address
	decl := &ast.AclDeclaration{Meta: m(), Name: &ast.Ident{Meta: m(), Value: "a"}}
	names := []string{"e0", "e1", "e2", "e3"}
	best, bestNeg := -1, false
	conflict := false
	for k := 0; k < e; k++ {
		n := aclNets6[nondet.Choice(names[k], len(aclNets6))]
		neg := nondet.Bool(names[k] + "_neg")
		c := &ast.AclCidr{Meta: m(), IP: &ast.IP{Meta: m(), Value: n.ip}}
		if n.mask >= 0 {
			c.Mask = &ast.Integer{Meta: m(), Value: int64(n.mask)}
		}
		if neg {
			c.Inverse = &ast.Boolean{Meta: m(), Value: true}
		}
		decl.CIDRs = append(decl.CIDRs, c)
		if aclContains6(n, ip) {
			if n.bits > best {
				best, bestNeg, conflict = n.bits, neg, false
			} else if n.bits == best && neg != bestNeg {
				conflict = true
			}
		}
	}
	if conflict {
		return
	}
	want := best >= 0 && !bestNeg
	addr := make(net.IP, 16)
	copy(addr, ip[:])
	got, err := matchesAcl(value.Acl{Value: decl}, addr)
	nondet.Observe("result", got, err != nil)
	nondet.Assert(err == nil, "matching a well-formed IPv6 ACL fails")
	if err != nil {
		return
	}
	nondet.Assert(got == want, "the IPv6 ACL match is not decided by the longest containing prefix and its negation")
	nondet.Cover("checked")
}
