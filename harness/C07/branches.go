package interpreter

//verif:pkg interpreter

import (
	"github.com/ysugimoto/falco/v2/ast"
	"github.com/ysugimoto/falco/v2/interpreter/context"
	"github.com/ysugimoto/falco/v2/interpreter/process"
	"github.com/ysugimoto/falco/v2/interpreter/value"
	"github.com/ysugimoto/falco/v2/interpreter/variable"
	"github.com/ysugimoto/falco/v2/token"
	"github.com/ysugimoto/falco/v2/zz_verif/nondet"
)

// C07-c/d: branches taken and not-set handling against a reference evaluator.

func bm() *ast.Meta            { return &ast.Meta{Token: token.Token{Line: 1, Position: 1}} }
func bid(s string) *ast.Ident  { return &ast.Ident{Meta: bm(), Value: s} }
func bop(s string) *ast.Operator { return &ast.Operator{Meta: bm(), Operator: s} }

// mark(k): set var.m *= 10; set var.m += k;   (the marker sequence is the decimal expansion of var.m)
func bmark(k int64) []ast.Statement {
	return []ast.Statement{
		&ast.SetStatement{Meta: bm(), Ident: bid("var.m"), Operator: bop("*="), Value: &ast.Integer{Meta: bm(), Value: 10}},
		&ast.SetStatement{Meta: bm(), Ident: bid("var.m"), Operator: bop("+="), Value: &ast.Integer{Meta: bm(), Value: k}},
	}
}

func bblock(k int64) *ast.BlockStatement { return &ast.BlockStatement{Meta: bm(), Statements: bmark(k)} }

func bSetup() (*Interpreter, *value.Integer) {
	i := New()
	i.ctx = context.New()
	i.ctx.Scope = context.RecvScope
	i.process = process.New()
	m := &value.Integer{}
	i.localVars = variable.LocalVariables{"var.m": m}
	return i, m
}

// VerifIfChain: if / else if / else if / else over conditions that are BOOL
// variables, STRING variables (true when set) or their negations.
func VerifIfChain() {
	i, m := bSetup()
	n := nondet.IntRange("elseifs", 0, 2)
	hasElse := nondet.Bool("haselse")
	conds := []ast.Expression{}
	truth := []bool{}
	names := []string{"c0", "c1", "c2"}
	for k := 0; k <= n; k++ {
		vn := "var." + names[k]
		var t bool
		if nondet.Bool(names[k] + "_isstr") {
			ns := nondet.Bool(names[k] + "_notset")
			i.localVars[vn] = &value.String{Value: nondet.StringIn(names[k]+"_s", nondet.IntRange(names[k]+"_len", 0, 1), 0x20, 0x7e), IsNotSet: ns}
			t = !ns // a string is truthy exactly when it is set (also when it is empty)
		} else {
			b := nondet.Bool(names[k])
			i.localVars[vn] = &value.Boolean{Value: b}
			t = b
		}
		var c ast.Expression = bid(vn)
		if nondet.Bool(names[k] + "_neg") {
			c = &ast.PrefixExpression{Meta: bm(), Operator: "!", Right: bid(vn)}
			t = !t
		}
		conds = append(conds, c)
		truth = append(truth, t)
	}
	stmt := &ast.IfStatement{Meta: bm(), Keyword: "if", Condition: conds[0], Consequence: bblock(1), Another: []*ast.IfStatement{}}
	for k := 1; k <= n; k++ {
		stmt.Another = append(stmt.Another, &ast.IfStatement{Meta: bm(), Keyword: "else if", Condition: conds[k], Consequence: bblock(int64(k + 1)), Another: []*ast.IfStatement{}})
	}
	if hasElse {
		stmt.Alternative = &ast.ElseStatement{Meta: bm(), Consequence: bblock(9)}
	}
	var want int64
	for k := 0; k <= n; k++ {
		if truth[k] {
			want = int64(k + 1)
			break
		}
	}
	if want == 0 && hasElse {
		want = 9
	}
	_, _, _, err := i.ProcessBlockStatement([]ast.Statement{stmt}, DebugPass, false)
	nondet.Observe("m", m.Value, err != nil)
	nondet.Assert(err == nil, "an if chain over BOOL / STRING conditions fails")
	nondet.Assert(m.Value == want, "the if chain does not take the first branch whose condition holds")
	nondet.Cover("checked")
}

// VerifSwitch: switch over a STRING control with up to three cases,
// fallthrough flags and a default in any position.
func VerifSwitch() {
	i, m := bSetup()
	letters := []string{"a", "b", "c"}
	ctl := letters[nondet.Choice("ctl", 3)]
	i.localVars["var.s"] = &value.String{Value: ctl}
	nc := nondet.IntRange("cases", 1, 3)
	def := -1
	if nondet.Bool("hasdefault") {
		def = nondet.IntRange("default", 0, nc-1)
	}
	stmt := &ast.SwitchStatement{Meta: bm(), Control: &ast.SwitchControl{Meta: bm(), Expression: bid("var.s")}, Default: def}
	labels := []string{}
	falls := []bool{}
	cn := []string{"k0", "k1", "k2"}
	for k := 0; k < nc; k++ {
		lab := letters[nondet.Choice(cn[k], 3)]
		ft := false
		if k < nc-1 {
			ft = nondet.Bool(cn[k] + "_ft")
		}
		c := &ast.CaseStatement{Meta: bm(), Statements: bmark(int64(k + 1)), Fallthrough: ft}
		if ft {
			c.Statements = append(c.Statements, &ast.FallthroughStatement{Meta: bm()})
		} else {
			c.Statements = append(c.Statements, &ast.BreakStatement{Meta: bm()})
		}
		if k != def {
			c.Test = &ast.InfixExpression{Meta: bm(), Operator: "==", Right: &ast.String{Meta: bm(), Value: lab}}
		}
		stmt.Cases = append(stmt.Cases, c)
		labels = append(labels, lab)
		falls = append(falls, ft)
	}
	// reference: first matching case in source order (the default only if none matches), then fall through while flagged
	start := -1
	for k := 0; k < nc; k++ {
		if k != def && labels[k] == ctl {
			start = k
			break
		}
	}
	if start < 0 {
		start = def
	}
	var want int64
	for k := start; k >= 0 && k < nc; k++ {
		want = want*10 + int64(k+1)
		if !falls[k] {
			break
		}
	}
	_, _, _, err := i.ProcessBlockStatement([]ast.Statement{stmt}, DebugPass, false)
	nondet.Observe("m", m.Value, err != nil)
	nondet.Assert(err == nil, "a switch over a STRING control fails")
	nondet.Assert(m.Value == want, "the switch does not run the first matching case and its fallthrough successors")
	nondet.Cover("checked")
}

// VerifNotSet: a not-set string is falsy, equals nothing, and reads as empty
// (and set) once assigned to a local variable.
func VerifNotSet() {
	i, _ := bSetup()
	ns := nondet.Bool("notset")
	src := &value.String{Value: nondet.StringIn("s", nondet.IntRange("len", 0, 1), 0x20, 0x7e), IsNotSet: ns}
	if ns {
		src.Value = ""
	}
	i.localVars["var.src"] = src
	i.localVars["var.dst"] = &value.String{Value: "old"}
	i.localVars["var.b"] = &value.Boolean{}
	// set var.b = (var.src == "");  -- a not-set string equals nothing, not even the empty string
	eq := &ast.SetStatement{Meta: bm(), Ident: bid("var.b"), Operator: bop("="), Value: &ast.GroupedExpression{Meta: bm(), Right: &ast.InfixExpression{Meta: bm(), Operator: "==", Left: bid("var.src"), Right: &ast.String{Meta: bm(), Value: ""}}}}
	err := i.ProcessSetStatement(eq)
	nondet.Assert(err == nil, "comparing a STRING variable with a literal fails")
	if err != nil {
		return
	}
	b := i.localVars["var.b"].(*value.Boolean).Value
	if ns {
		nondet.Assert(!b, "a not-set string compares equal to the empty string")
	} else {
		nondet.Assert(b == (src.Value == ""), "a set string compares wrongly with the empty string")
	}
	// set var.dst = var.src;  -- reads as empty once assigned to a local, and is then set
	as := &ast.SetStatement{Meta: bm(), Ident: bid("var.dst"), Operator: bop("="), Value: bid("var.src")}
	err = i.ProcessSetStatement(as)
	nondet.Assert(err == nil, "assigning a STRING variable to a local fails")
	if err != nil {
		return
	}
	dst := i.localVars["var.dst"].(*value.String)
	nondet.Assert(!dst.IsNotSet, "a local STRING is not-set after an assignment")
	if ns {
		nondet.Assert(dst.Value == "", "a not-set string does not read as empty once assigned to a local")
	} else {
		nondet.Assert(dst.Value == src.Value, "assignment does not copy the string")
	}
	nondet.Assert(src.IsNotSet == ns, "reading a not-set string changes it")
	nondet.Cover("checked")
}
