// Package nondet is the interface between a verification harness and its two
// executors.  Under the symbolic engine (symgo) every function here is
// intercepted by name and returns SMT terms; compiled natively (go test
// -overlay) the bodies below run instead and read the values of one solver
// model from the file named by VERIF_MODEL, so that a counterexample found by
// the solver can be replayed against the real build.
package nondet

import (
	"encoding/json"
	"fmt"
	"math"
	"os"
	"strconv"
	"strings"
)

type model struct {
	Vals   map[string]string `json:"vals"`
	Params map[string]int    `json:"params"`
}

var cur model

// Load installs the model in file path (native replay only).
func Load(path string) error {
	b, err := os.ReadFile(path)
	if err != nil {
		return err
	}
	cur = model{}
	return json.Unmarshal(b, &cur)
}

// Set installs a model directly (native replay only).
func Set(vals map[string]string, params map[string]int) { cur = model{vals, params} }

func get(name string) uint64 {
	s, ok := cur.Vals[name]
	if !ok {
		return 0
	}
	if s == "true" {
		return 1
	}
	if s == "false" {
		return 0
	}
	u, _ := strconv.ParseUint(s, 10, 64)
	return u
}

// AssertFailed is the panic value of a failed Assert in a native replay.
type AssertFailed struct{ Msg string }

// AssumeFailed is the panic value of a failed Assume in a native replay.
type AssumeFailed struct{}

// Out receives the observation lines of a native replay.
var Out = os.Stdout

func Native() bool           { return true }
func Param(name string) int  { return cur.Params[name] }

// ParamOr is Param with a default for parameter sets that do not mention name.
func ParamOr(name string, def int) int {
	if v, ok := cur.Params[name]; ok {
		return v
	}
	return def
}

func Bool(name string) bool  { return get(name)&1 == 1 }
func Byte(name string) byte  { return byte(get(name)) }
func Int(name string) int    { return int(get(name)) }
func Int64(name string) int64 { return int64(get(name)) }
func Int32(name string) int32 { return int32(get(name)) }
func Uint64(name string) uint64 { return get(name) }
func Float64(name string) float64 { return math.Float64frombits(get(name)) }

// IntRange is an int in [lo, hi]; under the engine the path forks per value.
func IntRange(name string, lo, hi int) int { return int(int64(get(name))) }

// Choice is an index in [0, n); under the engine the path forks per value.
func Choice(name string, n int) int { return int(get(name)) }

// Bytes returns n bytes named name_0 … name_<n-1>.
func Bytes(name string, n int) []byte {
	b := make([]byte, n)
	for i := range b {
		b[i] = byte(get(name + "_" + strconv.Itoa(i)))
	}
	return b
}

func String(name string, n int) string { return string(Bytes(name, n)) }

// StringIn is a string of n bytes, each constrained to [lo, hi] (no forking).
func StringIn(name string, n int, lo, hi byte) string { return string(Bytes(name, n)) }

// Enum is a string drawn from dom by a symbolic index (no fork until used).
func Enum(name string, dom []string) string { return dom[get(name)] }

// EnumPair draws a[i], b[i] with one shared symbolic index.
func EnumPair(name string, a, b []string) (string, string) { i := get(name); return a[i], b[i] }

func Assume(c bool) {
	if !c {
		panic(AssumeFailed{})
	}
}

func Assert(c bool, msg string) {
	if !c {
		panic(AssertFailed{msg})
	}
}

func Fail(msg string) { panic(AssertFailed{msg}) }

func Cover(label string) {}

func Debug(msg string) {}

// MapOrder switches symbolic map iteration order on or off (engine only).
func MapOrder(on bool) {}

// Observe records values for translator validation: the engine predicts them
// from the solver model, the native replay prints them, the driver compares.
func Observe(label string, vals ...any) {
	var parts []string
	for _, v := range vals {
		parts = append(parts, render(v))
	}
	fmt.Fprintf(Out, "VERIF-OBS %s=%s\n", label, strings.Join(parts, ","))
}

func render(v any) string {
	switch v := v.(type) {
	case bool:
		if v {
			return "true"
		}
		return "false"
	case int:
		return strconv.FormatUint(uint64(v), 10)
	case int64:
		return strconv.FormatUint(uint64(v), 10)
	case int32:
		return strconv.FormatUint(uint64(uint32(v)), 10)
	case int16:
		return strconv.FormatUint(uint64(uint16(v)), 10)
	case int8:
		return strconv.FormatUint(uint64(uint8(v)), 10)
	case uint:
		return strconv.FormatUint(uint64(v), 10)
	case uint64:
		return strconv.FormatUint(v, 10)
	case uint32:
		return strconv.FormatUint(uint64(v), 10)
	case uint16:
		return strconv.FormatUint(uint64(v), 10)
	case uint8:
		return strconv.FormatUint(uint64(v), 10)
	case float64:
		if v != v {
			return "NaN"
		}
		return "f" + strconv.FormatUint(math.Float64bits(v), 10)
	case string:
		var sb strings.Builder
		sb.WriteString("s")
		for i := 0; i < len(v); i++ {
			if i > 0 {
				sb.WriteString(".")
			}
			sb.WriteString(strconv.Itoa(int(v[i])))
		}
		return sb.String()
	case []byte:
		return render(string(v))
	case error:
		if v == nil {
			return "nil"
		}
		return "err"
	case nil:
		return "nil"
	}
	return fmt.Sprintf("<%T>", v)
}
