package linter

//verif:pkg linter
//verif:overlay zz_verif/astcmp/astcmp.go=harness/lib/astcmp.go

import (
	"sort"
	"strings"

	"github.com/ysugimoto/falco/v2/ast"
	"github.com/ysugimoto/falco/v2/config"
	"github.com/ysugimoto/falco/v2/lexer"
	"github.com/ysugimoto/falco/v2/linter/context"
	"github.com/ysugimoto/falco/v2/parser"
	"github.com/ysugimoto/falco/v2/zz_verif/astcmp"
	"github.com/ysugimoto/falco/v2/zz_verif/nondet"
)

// C09 (parser and linter side): inserting an ordinary comment at any
// documented placeholder of a construct (docs/parser.md), or blank lines and
// spaces around it, changes neither the syntax tree (positions and comment
// lists apart) nor the linter's diagnostics (line and column apart).

var CmTemplates = []string{
	// declarations
	"acl @ a @ {\n  @\n  ! @ \"10.0.0.0\"/8 @; @\n} @\n",
	"backend @ b @ {\n  @\n  .host @ = @ \"h\" @; @\n  .probe @ = @ {\n    @\n    .interval @ = @ 1s @; @\n  } @\n} @\n",
	"director @ d @ random @ {\n  @\n  .quorum @ = @ 50% @; @\n  {@ .backend @ = @ b @; @} @\n} @\n",
	"table @ t @ STRING @ {\n  @\n  \"k\" @: @ \"v\" @, @\n}\n",
	"sub @ s @ {\n  esi;\n  @\n} @\n",
	"penaltybox @ p @ {\n  @\n} @\n",
	"ratecounter @ r @ {\n  @\n} @\n",
	"sub @ s @ {\n  call t;\n  @\n} @\nsub t {\n  call u;\n}\nsub u {\n  set req.http.u = \"1\";\n  call s2;\n}\nsub s2 {\n  esi;\n}\nsub vcl_recv {\n  #FASTLY RECV\n  call s;\n}\n",
	// statements (inside a subroutine)
	"S@\nadd @ req.http.a @ = @ \"v\" @; @\n",
	"S@\n{\n  esi;\n  @\n} @\n",
	"S@\ncall @ f @; @\n",
	"S@\ndeclare @ local @ var.a @ STRING @; @\n",
	"S@\nerror @ 601 @ \"m\" @; @\n",
	"S@\nesi @; @\n",
	"S@\nstd.collect(@ req.http.a @, \"x\") @; @\n",
	"S@\ngoto @ l @; @\n",
	"S@\nl: @\n",
	"S@\nif @ (@ req.http.a @) @ {\n  esi;\n}\n@\nelse if @ (@ req.http.b @) @ {\n  esi;\n}\n@\nelse @ {\n  esi;\n}\n",
	"@\nimport @ m @; @\n",
	"@\ninclude @ \"m\" @; @\n",
	"S@\nlog @ \"a\" @; @\n",
	"S@\nremove @ req.http.a @; @\n",
	"S@\nrestart @; @\n",
	"S@\nreturn @ (@ lookup @) @; @\n",
	"S@\nset @ req.http.a @ = @ \"v\" @; @\n",
	"S@\nswitch @ (@ req.http.a @) @ {\n  @\n  case @ \"1\" @: @\n    esi;\n    @\n    fallthrough @; @\n  case \"2\":\n    @\n    break @; @\n  default @: @\n    esi;\n    break;\n}\n",
	"S@\nsynthetic @ \"a\" @; @\n",
	"S@\nsynthetic.base64 @ \"a\" @; @\n",
	"S@\nunset @ req.http.a @; @\n",
}

// cmRender fills placeholder number `at` (and `at2` if >= 0) of template t with
// comments and removes the others.  Returns the text and the number of placeholders.
func cmRender(t string, at, at2, style int) (string, int) {
	inSub := strings.HasPrefix(t, "S")
	if inSub {
		t = t[1:]
	}
	var sb strings.Builder
	n := 0
	for i := 0; i < len(t); i++ {
		if t[i] != '@' {
			sb.WriteByte(t[i])
			continue
		}
		k := n
		n++
		ownLine := (i == 0 || t[i-1] == ' ' && lineStartsAt(t, i)) && (i+1 == len(t) || t[i+1] == '\n')
		endOfLine := !ownLine && (i+1 == len(t) || t[i+1] == '\n')
		if k != at && k != at2 {
			if ownLine {
				// drop the whole line
				s := sb.String()
				s = strings.TrimRight(s, " ")
				sb.Reset()
				sb.WriteString(s)
				if i+1 < len(t) {
					i++ // skip the line feed
				}
			}
			continue
		}
		text := "c" + string(rune('0'+k%10)) + string(rune('a'+k/10))
		switch {
		case style == 3:
			sb.WriteString("/**/") // the shortest block comment
		case style == 4:
			sb.WriteString("/** " + text + " **/") // asterisks next to the delimiters
		case style == 5:
			sb.WriteString("/*/ " + text + " /*/") // slashes next to the delimiters
		case ownLine || endOfLine:
			switch style {
			case 0:
				sb.WriteString("# " + text)
			case 1:
				sb.WriteString("// " + text)
			default:
				sb.WriteString("/* " + text + " */")
			}
		default:
			sb.WriteString("/* " + text + " */")
		}
	}
	out := sb.String()
	if inSub {
		out = "sub vcl_recv {\n" + out + "}\n"
	}
	return out, n
}

func lineStartsAt(t string, i int) bool {
	for j := i - 1; j >= 0; j-- {
		if t[j] == '\n' {
			return true
		}
		if t[j] != ' ' {
			return false
		}
	}
	return true
}

func cmCount(t string) int { return strings.Count(t, "@") }


func cmParse(src string) (*ast.VCL, error) {
	return parser.New(lexer.NewFromString(src)).ParseVCL()
}

// cmDiagnostics lints a program and returns its diagnostics without positions, sorted.
func cmDiagnostics(vcl *ast.VCL) []string {
	l := New(&config.LinterConfig{})
	l.Lint(vcl, context.New())
	var out []string
	for _, e := range l.Errors {
		out = append(out, string(e.Rule)+"|"+string(e.Severity)+"|"+e.Message)
	}
	sort.Strings(out)
	return out
}

func VerifCommentsInert() {
	t := CmTemplates[nondet.Param("T")]
	n := cmCount(t)
	at := nondet.IntRange("at", 0, n-1)
	style := nondet.Choice("style", 6)
	plain, _ := cmRender(t, -1, -1, 0)
	src, _ := cmRender(t, at, -1, style)
	if nondet.Bool("layout") {
		// layout decoration as well: blank lines and trailing spaces at the line ends, a tab indent
		src = strings.ReplaceAll(src, "\n", " \n\n\t")
	}
	v0, err0 := cmParse(plain)
	nondet.Assert(err0 == nil, "the undecorated template does not parse")
	if err0 != nil {
		return
	}
	v1, err1 := cmParse(src)
	nondet.Observe("at", at, style, err1 != nil)
	nondet.Assert(err1 == nil, "a comment at a documented placeholder (or added layout) makes the program unparseable")
	if err1 != nil {
		return
	}
	nondet.Assert(astcmp.Stmts(v0.Statements, v1.Statements, astcmp.Strict), "a comment or layout change alters the syntax tree: "+astcmp.Why)
	d0, d1 := cmDiagnostics(v0), cmDiagnostics(v1)
	same := len(d0) == len(d1)
	if same {
		for i := range d0 {
			if d0[i] != d1[i] {
				same = false
			}
		}
	}
	nondet.Assert(same, "a comment or layout change alters the linter's diagnostics")
	nondet.Cover("checked")
}
