package interpreter

//verif:pkg interpreter
//verif:intercept (*github.com/ysugimoto/falco/v2/interpreter/http.Request).Clone siCloneRequest

import (
	gocontext "context"
	ghttp "net/http"
	"net/url"
	"strings"

	"github.com/ysugimoto/falco/v2/ast"
	"github.com/ysugimoto/falco/v2/interpreter/context"
	ihttp "github.com/ysugimoto/falco/v2/interpreter/http"
	"github.com/ysugimoto/falco/v2/interpreter/process"
	"github.com/ysugimoto/falco/v2/lexer"
	"github.com/ysugimoto/falco/v2/parser"
	"github.com/ysugimoto/falco/v2/zz_verif/nondet"
)

// C09 (simulator side): an ordinary comment at any documented placeholder of
// the statements of a subroutine, or added layout, changes nothing the
// simulator does: returned state, logs, errors.

func siCloneRequest(r *ihttp.Request, c gocontext.Context) *ihttp.Request { return r }

// the body of vcl_recv; @ marks the documented comment placeholders (docs/parser.md)
var SiBodies = []string{
	"S@\ndeclare @ local @ var.s @ STRING @; @\ndeclare local var.n INTEGER;\n@\nset @ var.s @ = @ \"a\" @ \"b\" @; @\n@\nif @ (@ var.s == \"ab\" @) @ {\n  set var.n = 1;\n}\n@\nelse @ {\n  set var.n = 2;\n}\nlog var.s var.n;\n@\nreturn @ (@ lookup @) @; @\n",
	"Sdeclare local var.s STRING;\ndeclare local var.n INTEGER;\nset var.s = \"ab\";\n@\nswitch @ (@ var.s @) @ {\n  @\n  case @ \"ab\" @: @\n    set var.n += 10;\n    @\n    fallthrough @; @\n  case \"x\":\n    set var.n += 100;\n    @\n    break @; @\n  default @: @\n    set var.n += 1000;\n    break;\n}\nlog var.n;\n@\nreturn @ (@ pass @) @; @\n",
	"S@\ncall @ helper @; @\n@\nlog @ \"m\" @ \"n\" @; @\n@\nset @ req.http.a @ = @ \"v\" @; @\n@\nunset @ req.http.a @; @\n@\nadd @ req.http.b @ = @ \"w\" @; @\nlog req.http.b;\n@\nif @ (@ !req.http.a @) @ {\n  @\n  error @ 601 @ \"m\" @; @\n}\n",
	"S@\nif @ (@ req.http.x @) @ {\n  esi;\n}\n@\nelse if @ (@ req.http.b == \"\" @) @ {\n  log \"elseif\";\n}\n@\nelse @ {\n  log \"else\";\n}\n@\nrestart @; @\n",
}

// cmRender fills placeholder number `at` (and `at2` if >= 0) of template t with
// comments and removes the others.  Returns the text and the number of placeholders.
func cmRender(t string, at, at2, style int) (string, int) {
	inSub := strings.HasPrefix(t, "S")
	if inSub {
		t = t[1:]
	}
	var sb strings.Builder
	n := 0
	for i := 0; i < len(t); i++ {
		if t[i] != '@' {
			sb.WriteByte(t[i])
			continue
		}
		k := n
		n++
		ownLine := (i == 0 || t[i-1] == ' ' && lineStartsAt(t, i)) && (i+1 == len(t) || t[i+1] == '\n')
		endOfLine := !ownLine && (i+1 == len(t) || t[i+1] == '\n')
		if k != at && k != at2 {
			if ownLine {
				// drop the whole line
				s := sb.String()
				s = strings.TrimRight(s, " ")
				sb.Reset()
				sb.WriteString(s)
				if i+1 < len(t) {
					i++ // skip the line feed
				}
			}
			continue
		}
		text := "c" + string(rune('0'+k%10)) + string(rune('a'+k/10))
		switch {
		case style == 3:
			sb.WriteString("/**/")
		case style == 4:
			sb.WriteString("/** " + text + " **/")
		case style == 5:
			sb.WriteString("/*/ " + text + " /*/")
		case ownLine || endOfLine:
			switch style {
			case 0:
				sb.WriteString("# " + text)
			case 1:
				sb.WriteString("// " + text)
			default:
				sb.WriteString("/* " + text + " */")
			}
		default:
			sb.WriteString("/* " + text + " */")
		}
	}
	out := sb.String()
	if inSub {
		out = "sub vcl_recv {\n" + out + "}\n"
	}
	return out, n
}

func lineStartsAt(t string, i int) bool {
	for j := i - 1; j >= 0; j-- {
		if t[j] == '\n' {
			return true
		}
		if t[j] != ' ' {
			return false
		}
	}
	return true
}

func cmCount(t string) int { return strings.Count(t, "@") }


type siResult struct {
	state State
	err   bool
	logs  string
}

func siRun(src string) (siResult, bool) {
	src = src + "sub helper {\n  log \"h\";\n}\n"
	vcl, err := parser.New(lexer.NewFromString(src)).ParseVCL()
	if err != nil {
		return siResult{}, false
	}
	i := New()
	i.ctx = context.New()
	i.process = process.New()
	i.ctx.Request = ihttp.WrapRequest(&ghttp.Request{Method: "GET", Header: ghttp.Header{}, URL: &url.URL{Path: "/x"}})
	i.SetScope(context.RecvScope)
	var recv *ast.SubroutineDeclaration
	for _, s := range vcl.Statements {
		if sub, ok := s.(*ast.SubroutineDeclaration); ok {
			i.ctx.Subroutines[sub.Name.Value] = sub
			if sub.Name.Value == "vcl_recv" {
				recv = sub
			}
		}
	}
	st, rerr := i.ProcessSubroutine(recv, DebugPass, nil)
	var logs []string
	for _, l := range i.process.Logs {
		logs = append(logs, l.Message)
	}
	return siResult{state: st, err: rerr != nil, logs: strings.Join(logs, "|")}, true
}

func VerifSimulatorInert() {
	t := SiBodies[nondet.Param("B")]
	n := cmCount(t)
	at := nondet.IntRange("at", 0, n-1)
	style := nondet.Choice("style", 6)
	plain, _ := cmRender(t, -1, -1, 0)
	src, _ := cmRender(t, at, -1, style)
	if nondet.Bool("layout") {
		src = strings.ReplaceAll(src, "\n", " \n\n\t")
	}
	r0, ok0 := siRun(plain)
	nondet.Assert(ok0, "the undecorated body does not parse")
	if !ok0 {
		return
	}
	r1, ok1 := siRun(src)
	nondet.Observe("at", at, style, ok1)
	nondet.Assert(ok1, "a comment at a documented placeholder (or added layout) makes the program unparseable")
	if !ok1 {
		return
	}
	nondet.Assert(r0.state == r1.state, "a comment or layout change alters the state the subroutine returns")
	nondet.Assert(r0.err == r1.err, "a comment or layout change alters whether the subroutine fails")
	nondet.Assert(r0.logs == r1.logs, "a comment or layout change alters the logs")
	nondet.Cover("checked")
}
