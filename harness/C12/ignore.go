package linter

//verif:pkg linter

import (
	"strings"

	"github.com/ysugimoto/falco/v2/ast"
	"github.com/ysugimoto/falco/v2/config"
	"github.com/ysugimoto/falco/v2/lexer"
	"github.com/ysugimoto/falco/v2/linter/context"
	"github.com/ysugimoto/falco/v2/parser"
	"github.com/ysugimoto/falco/v2/token"
	"github.com/ysugimoto/falco/v2/zz_verif/nondet"
)

// C12: ignore comments suppress exactly what they cover.  The program goes
// through the real lexer and parser (which decide where a comment is attached)
// and the real lint driver (lintVCL, subroutine / block / if linting, the
// ignore Setup/Teardown machinery, Linter.Error).  Diagnostics come from a
// custom statement `verr <rule> <id>;` whose Lint returns one LintError of
// the rule it names, so exactly the suppression machinery is exercised on a
// known set of diagnostics.

type igVerr struct {
	*ast.Meta
	rule, id string
}

func (v *igVerr) ID() uint64          { return v.Meta.ID }
func (v *igVerr) Statement()          {}
func (v *igVerr) Literal() string     { return "verr" }
func (v *igVerr) GetMeta() *ast.Meta  { return v.Meta }
func (v *igVerr) String() string      { return "verr " + v.rule + " " + v.id + ";" }
func (v *igVerr) Lint(func(ast.Node)) error {
	return &LintError{Severity: ERROR, Token: v.Meta.Token, Message: v.id, Rule: Rule(v.rule)}
}

type igParser struct{}

func (igParser) Ident() string          { return "verr" }
func (igParser) Token() token.TokenType { return token.Custom("VERR") }
func (igParser) Parse(p *parser.Parser) (ast.CustomStatement, error) {
	st := &igVerr{Meta: p.CurToken()}
	if !p.ExpectPeek(token.IDENT) {
		return nil, parser.UnexpectedToken(p.PeekToken(), token.IDENT)
	}
	st.rule = p.CurToken().Token.Literal
	if !p.ExpectPeek(token.IDENT) {
		return nil, parser.UnexpectedToken(p.PeekToken(), token.IDENT)
	}
	st.id = p.CurToken().Token.Literal
	if !p.PeekTokenIs(token.SEMICOLON) {
		return nil, parser.MissingSemicolon(p.CurToken())
	}
	p.NextToken() // point to SEMICOLON
	st.Trailing = p.Trailing()
	return st, nil
}

// positions in textual order: own-line gaps G0..G6 and trailing gaps T0..T3
//   G0 s0 T0 G1 if{ G2 s1 T1 G3 } G4 s2 T2 G5 } G6 sub{ s3 T3 }
var igOrder = []string{"G0", "s0", "T0", "G1", "G2", "s1", "T1", "G3", "G4", "s2", "T2", "G5", "G6", "s3", "T3"}

func igPos(name string) int {
	for i, n := range igOrder {
		if n == name {
			return i
		}
	}
	return -1
}

type igDirective struct {
	gap   string // "G0".."G6" or "T0".."T3"
	kind  string // next-line | start | end | this
	rules string // "", "A", "B", "A, B"
}

func (d igDirective) text(marker int) string {
	w := map[string]string{"next-line": "falco-ignore-next-line", "start": "falco-ignore-start", "end": "falco-ignore-end", "this": "falco-ignore"}[d.kind]
	if d.rules != "" {
		w += " " + d.rules
	}
	switch marker {
	case 0:
		return "# " + w
	case 1:
		return "// " + w
	}
	return "/* " + w + " */"
}

func (d igDirective) matches(rule string) bool {
	return d.rules == "" || strings.Contains(d.rules, rule)
}

func igRender(ds []igDirective, markers []int, rules []string) string {
	at := func(gap string, ownLine bool) string {
		var sb strings.Builder
		for k, d := range ds {
			if d.gap == gap {
				if ownLine {
					sb.WriteString(d.text(markers[k]) + "\n")
				} else {
					sb.WriteString(" " + d.text(markers[k]))
				}
			}
		}
		return sb.String()
	}
	return "sub s1 {\n" + at("G0", true) + "verr " + rules[0] + " s0;" + at("T0", false) + "\n" +
		at("G1", true) + "if (req.http.x) {\n" + at("G2", true) + "verr " + rules[1] + " s1;" + at("T1", false) + "\n" + at("G3", true) + "}\n" +
		at("G4", true) + "verr " + rules[2] + " s2;" + at("T2", false) + "\n" + at("G5", true) + "}\n" +
		at("G6", true) + "sub s2 {\nverr " + rules[3] + " s3;" + at("T3", false) + "\n}\n"
}

func igLint(src string) (map[string]bool, bool) {
	lx := lexer.NewFromString(src)
	vcl, err := parser.New(lx, parser.WithCustomParser(igParser{})).ParseVCL()
	if err != nil {
		return nil, false
	}
	l := New(&config.LinterConfig{})
	l.lint(vcl, context.New())
	got := map[string]bool{}
	for _, e := range l.Errors {
		if strings.HasPrefix(e.Message, "s") && len(e.Message) == 2 {
			got[e.Message] = true
		}
	}
	return got, true
}

var igOwnGaps = []string{"G0", "G1", "G2", "G4", "G3", "G5", "G6"}
var igTrailGaps = []string{"T0", "T1", "T2", "T3"}
var igRuleLists = []string{"", "A", "B", "A, B"}

// what a next-line directive at an own-line gap covers
var igNextTarget = map[string][]string{"G0": {"s0"}, "G1": {"s1"}, "G2": {"s1"}, "G4": {"s2"}}

func VerifIgnore() {
	nd := nondet.Param("D")
	nr := nondet.Param("RULES") // how many of the rule lists are explored
	stmts := []string{"s0", "s1", "s2", "s3"}
	rules := []string{"A", "B", []string{"A", "B"}[nondet.Choice("r2", 2)], []string{"A", "B"}[nondet.Choice("r3", 2)]}
	names := []string{"d0", "d1", "d2"}
	var ds []igDirective
	var markers []int
	for k := 0; k < nd; k++ {
		n := names[k]
		var d igDirective
		if nondet.Bool(n + "_trailing") {
			d.gap = igTrailGaps[nondet.Choice(n+"_gap", len(igTrailGaps))]
			d.kind = "this"
		} else {
			d.kind = []string{"next-line", "start", "end"}[nondet.Choice(n+"_kind", 3)]
			if d.kind == "next-line" {
				d.gap = igOwnGaps[nondet.Choice(n+"_gap", 4)] // gaps that are followed by a statement of the same block
			} else {
				d.gap = igOwnGaps[nondet.Choice(n+"_gap", len(igOwnGaps))]
			}
		}
		d.rules = igRuleLists[nondet.Choice(n+"_rules", nr)]
		ds = append(ds, d)
		markers = append(markers, nondet.Choice(n+"_marker", nondet.Param("MARKERS")))
	}
	// two directives in the same gap: their relative order is the order of ds; keep it canonical
	for k := 1; k < len(ds); k++ {
		nondet.Assume(igPos(ds[k-1].gap) <= igPos(ds[k].gap))
		// one trailing comment per line (a second # would be part of the first comment)
		nondet.Assume(!(ds[k].kind == "this" && ds[k-1].gap == ds[k].gap))
	}
	src := igRender(ds, markers, rules)
	got, ok := igLint(src)
	nondet.Assert(ok, "a program with ignore comments does not parse")
	if !ok {
		return
	}
	base, _ := igLint(igRender(nil, nil, rules))
	for _, s := range stmts {
		nondet.Assert(base[s], "the undecorated program does not report every diagnostic")
	}
	// reference: suppression from the placement in the text
	for k, s := range stmts {
		rule := rules[k]
		pos := igPos(s)
		suppressed := false
		unspecified := false
		// range state just before statement s: replay start / end directives in textual order
		all := false
		set := map[string]bool{}
		open := false
		for _, d := range ds {
			if igPos(d.gap) > pos {
				continue
			}
			switch d.kind {
			case "start":
				open = true
				if d.rules == "" {
					all = true
				} else if all {
					unspecified = true // a rule list after an unrestricted start: the documentation does not say
				} else {
					for _, r := range strings.Split(d.rules, ", ") {
						set[r] = true
					}
				}
			case "end":
				if d.rules == "" {
					all, open = false, false
					set = map[string]bool{}
				} else if all {
					unspecified = true
				} else {
					for _, r := range strings.Split(d.rules, ", ") {
						delete(set, r)
					}
				}
			}
		}
		if open {
			// is the range closed after s?  if not it is an unpaired start: only "nothing before it is affected" is asserted
			closed := false
			for _, d := range ds {
				if d.kind == "end" && igPos(d.gap) > pos {
					closed = true
				}
			}
			if !closed {
				unspecified = true
			}
		}
		if all || set[rule] {
			suppressed = true
		}
		for _, d := range ds {
			switch d.kind {
			case "next-line":
				for _, t := range igNextTarget[d.gap] {
					if t == s && d.matches(rule) {
						suppressed = true
					}
				}
			case "this":
				if "T"+s[1:] == d.gap && d.matches(rule) {
					suppressed = true
				}
			}
		}
		if unspecified {
			continue
		}
		if suppressed {
			nondet.Assert(!got[s], "a diagnostic covered by an ignore comment is still reported ("+s+")")
		} else {
			nondet.Assert(got[s], "an ignore comment suppresses a diagnostic it does not cover ("+s+")")
		}
	}
	nondet.Cover("checked")
}
