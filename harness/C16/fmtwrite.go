package main

//verif:pkg cmd/falco
//verif:intercept github.com/ysugimoto/falco/v2/cmd/falco.write fwWrite
//verif:intercept github.com/ysugimoto/falco/v2/cmd/falco.writeln fwWrite
//verif:intercept (*github.com/ysugimoto/falco/v2/formatter.Formatter).Format fwFormat
//verif:intercept os.OpenFile fwOpenFile
//verif:intercept os.Create fwCreate
//verif:intercept os.CreateTemp fwCreateTemp
//verif:intercept os.WriteFile fwWriteFile
//verif:intercept os.ReadFile fwReadFile
//verif:intercept os.Rename fwRename
//verif:intercept os.Remove fwRemove
//verif:intercept os.Stat fwStat
//verif:intercept os.Lstat fwLstat
//verif:intercept os.Readlink fwReadlink
//verif:intercept path/filepath.EvalSymlinks fwEvalSymlinks
//verif:intercept os.Chmod fwChmodPath
//verif:intercept (*os.File).Write fwFileWrite
//verif:intercept (*os.File).WriteString fwFileWriteString
//verif:intercept (*os.File).ReadFrom fwFileReadFrom
//verif:intercept (*os.File).Close fwFileClose
//verif:intercept (*os.File).Sync fwFileSync
//verif:intercept (*os.File).Chmod fwFileChmod
//verif:intercept (*os.File).Name fwFileName
//verif:intercept (*os.File).Truncate fwFileTruncate

import (
	"bytes"
	"errors"
	"io"
	"io/fs"
	"os"
	"strconv"
	"time"

	"github.com/fatih/color"
	"github.com/ysugimoto/falco/v2/ast"
	"github.com/ysugimoto/falco/v2/config"
	"github.com/ysugimoto/falco/v2/formatter"
	"github.com/ysugimoto/falco/v2/resolver"
	"github.com/ysugimoto/falco/v2/zz_verif/nondet"
)

// C16: `fmt --write` never damages the file.  Runner.Format / runFormat /
// parseVCL are the real code; the file system is the model below (table B.4
// of DESIGN.md): every operation may fail (symbolic), every write may be
// short (symbolic), and after every operation the process may die (symbolic);
// the formatter's outcome (no output / text F / crash) is symbolic; FILE may be a
// symbolic link; a path the command creates without O_EXCL may hold the
// leftover of an earlier interrupted run.  An os
// function that the model does not know is not intercepted and makes the path
// unsupported (inconclusive), so another repair strategy is not misjudged.

func fwWrite(c *color.Color, format string, args ...any) {}

type fwFile struct {
	data   []byte
	exists bool
}

type fwDied struct{}

type fwHandleState struct {
	path string // the file the handle refers to (symbolic links resolved at open time)
	pos  int
	app  bool
}

var (
	fwFS        map[string]*fwFile
	fwOpen      map[*os.File]*fwHandleState // open handles
	fwLink      string                      // non-empty: fwLinkPath is a symbolic link to this path
	fwStale     int                         // leftovers of earlier interrupted runs met so far
	fwNames     map[*os.File]string         // every handle ever returned -> the name it was opened with
	fwOps       int
	fwFaults    int
	fwTemps     int
	fwFormatted string
	fwOutcome   int
)

const fwMaxFaults = 2

func fwStep(what string) {
	// crash point: the process may die after any file-system operation
	fwOps++
	if nondet.Bool("die_" + strconv.Itoa(fwOps)) {
		panic(fwDied{})
	}
}

func fwFail(what string) bool {
	if fwFaults >= fwMaxFaults {
		return false
	}
	if nondet.Bool("fail_" + what + "_" + strconv.Itoa(fwOps+1)) {
		fwFaults++
		return true
	}
	return false
}

const fwLinkPath = "dir/main.vcl"

// fwFollow resolves the one symbolic link of the model.
func fwFollow(name string) string {
	if fwLink != "" && name == fwLinkPath {
		return fwLink
	}
	return name
}

func fwHandle(name, path string, app bool) *os.File {
	f := &os.File{}
	fwOpen[f] = &fwHandleState{path: path, app: app}
	fwNames[f] = name
	return f
}

// fwLeftover: a path the command creates without O_EXCL may already exist - the
// directory can hold what an earlier, interrupted run left behind (at most once per run).
const fwStaleData = "LEFTOVER-OF-AN-INTERRUPTED-RUN-xxxxxxxxxxxxxxxxxxxxxxxxxxxxxxxxxxxxxxxxxxxxxxxxxxxxxxxxxxxxxxxxxxxxxxxxxxxxxxxxxxxxxx"

func fwLeftover(path string) *fwFile {
	if fwStale >= 1 || !nondet.Bool("leftover_"+strconv.Itoa(fwOps+1)) {
		return nil
	}
	fwStale++
	f := &fwFile{exists: true, data: []byte(fwStaleData)}
	fwFS[path] = f
	return f
}

func fwOpenFile(name string, flag int, perm os.FileMode) (*os.File, error) {
	if fwFail("open") {
		fwStep("open")
		return nil, errors.New("open " + name + ": permission denied")
	}
	path := fwFollow(name)
	f := fwFS[path]
	if (f == nil || !f.exists) && flag&os.O_CREATE != 0 {
		f = fwLeftover(path)
	}
	if f == nil || !f.exists {
		if flag&os.O_CREATE == 0 {
			fwStep("open")
			return nil, errors.New("open " + name + ": no such file")
		}
		f = &fwFile{exists: true}
		fwFS[path] = f
	} else if flag&os.O_CREATE != 0 && flag&os.O_EXCL != 0 {
		fwStep("open")
		return nil, errors.New("open " + name + ": file exists")
	}
	if flag&os.O_TRUNC != 0 {
		f.data = nil
	}
	h := fwHandle(name, path, flag&os.O_APPEND != 0)
	fwStep("open")
	return h, nil
}

func fwCreate(name string) (*os.File, error) {
	return fwOpenFile(name, os.O_RDWR|os.O_CREATE|os.O_TRUNC, 0o666)
}

func fwCreateTemp(dir, pattern string) (*os.File, error) {
	if fwFail("createtemp") {
		fwStep("createtemp")
		return nil, errors.New("createtemp: no space left on device")
	}
	fwTemps++
	name := dir + "/" + pattern + strconv.Itoa(fwTemps)
	fwFS[name] = &fwFile{exists: true} // O_EXCL: a new, empty file
	h := fwHandle(name, name, false)
	fwStep("createtemp")
	return h, nil
}

func fwFileWrite(f *os.File, b []byte) (int, error) {
	h, ok := fwOpen[f]
	if !ok {
		return 0, errors.New("write: file already closed")
	}
	file := fwFS[h.path]
	n := len(b)
	var err error
	if len(b) > 0 && fwFail("write") {
		n = nondet.IntRange("short_"+strconv.Itoa(fwOps+1), 0, len(b)-1) // short write: file-size limit, disk full
		err = errors.New("write " + h.path + ": no space left on device")
	}
	if file != nil && file.exists {
		if h.app {
			h.pos = len(file.data)
		}
		// overwrite from the handle's offset, extending the file when needed
		for k := 0; k < n; k++ {
			if h.pos < len(file.data) {
				file.data[h.pos] = b[k]
			} else {
				file.data = append(file.data, b[k])
			}
			h.pos++
		}
	}
	fwStep("write")
	return n, err
}

func fwFileWriteString(f *os.File, s string) (int, error) { return fwFileWrite(f, []byte(s)) }

func fwFileReadFrom(f *os.File, r io.Reader) (int64, error) {
	b, err := io.ReadAll(r)
	if err != nil {
		return 0, err
	}
	n, err := fwFileWrite(f, b)
	return int64(n), err
}

func fwFileClose(f *os.File) error {
	if _, ok := fwOpen[f]; !ok {
		return errors.New("close: file already closed")
	}
	delete(fwOpen, f)
	if fwFail("close") {
		fwStep("close")
		return errors.New("close: input/output error")
	}
	fwStep("close")
	return nil
}

func fwFileSync(f *os.File) error {
	if fwFail("sync") {
		fwStep("sync")
		return errors.New("sync: input/output error")
	}
	fwStep("sync")
	return nil
}

func fwFileChmod(f *os.File, m os.FileMode) error {
	if fwFail("chmod") {
		fwStep("chmod")
		return errors.New("chmod: operation not permitted")
	}
	fwStep("chmod")
	return nil
}

func fwChmodPath(name string, m os.FileMode) error { return fwFileChmod(nil, m) }

func fwFileName(f *os.File) string { return fwNames[f] }

func fwFileTruncate(f *os.File, size int64) error {
	h := fwOpen[f]
	if h == nil {
		return errors.New("truncate: file already closed")
	}
	if file := fwFS[h.path]; file != nil && int(size) <= len(file.data) {
		file.data = file.data[:size]
	}
	fwStep("truncate")
	return nil
}

func fwWriteFile(name string, data []byte, perm os.FileMode) error {
	f, err := fwOpenFile(name, os.O_WRONLY|os.O_CREATE|os.O_TRUNC, perm)
	if err != nil {
		return err
	}
	_, err = fwFileWrite(f, data)
	if err1 := fwFileClose(f); err1 != nil && err == nil {
		err = err1
	}
	return err
}

func fwReadFile(name string) ([]byte, error) {
	f := fwFS[fwFollow(name)]
	if f == nil || !f.exists {
		return nil, errors.New("open " + name + ": no such file")
	}
	return append([]byte{}, f.data...), nil
}

func fwRename(oldpath, newpath string) error {
	if fwFail("rename") {
		fwStep("rename")
		return errors.New("rename: operation not permitted")
	}
	src := fwFS[oldpath]
	if src == nil || !src.exists {
		fwStep("rename")
		return errors.New("rename: no such file")
	}
	if fwLink != "" && newpath == fwLinkPath {
		fwLink = "" // rename replaces the link itself, not its target
	}
	fwFS[newpath] = src // atomic replace
	delete(fwFS, oldpath)
	for _, h := range fwOpen {
		if h.path == oldpath {
			h.path = newpath
		}
	}
	fwStep("rename")
	return nil
}

func fwRemove(name string) error {
	if fwLink != "" && name == fwLinkPath {
		fwLink = ""
	} else if f := fwFS[name]; f != nil {
		delete(fwFS, name)
	}
	fwStep("remove")
	return nil
}

type fwInfo struct {
	name string
	link bool
}

func (i fwInfo) Name() string { return i.name }
func (i fwInfo) Size() int64  { return 0 }
func (i fwInfo) Mode() fs.FileMode {
	if i.link {
		return 0o777 | fs.ModeSymlink
	}
	return 0o644
}
func (i fwInfo) ModTime() time.Time { return time.Time{} }
func (i fwInfo) IsDir() bool        { return false }
func (i fwInfo) Sys() any           { return nil }

func fwStat(name string) (fs.FileInfo, error) {
	f := fwFS[fwFollow(name)]
	if f == nil || !f.exists || fwFail("stat") {
		fwStep("stat")
		return nil, errors.New("stat " + name + ": no such file")
	}
	fwStep("stat")
	return fwInfo{name, false}, nil
}

func fwLstat(name string) (fs.FileInfo, error) {
	if fwLink != "" && name == fwLinkPath {
		fwStep("lstat")
		return fwInfo{name, true}, nil
	}
	return fwStat(name)
}

func fwReadlink(name string) (string, error) {
	if fwLink != "" && name == fwLinkPath {
		return fwLink, nil
	}
	return "", errors.New("readlink " + name + ": invalid argument")
}

func fwEvalSymlinks(name string) (string, error) { return fwFollow(name), nil }

// fwFormat: the formatter's outcome is symbolic.
func fwFormat(f *formatter.Formatter, vcl *ast.VCL) io.Reader {
	switch fwOutcome {
	case 0:
		return bytes.NewReader([]byte(fwFormatted))
	case 1:
		return nil // a file kind the formatter does not handle
	default:
		panic("formatter: internal error")
	}
}

type fwResolver struct{ name, data string }

func (r *fwResolver) MainVCL() (*resolver.VCL, error) {
	return &resolver.VCL{Name: r.name, Data: r.data}, nil
}
func (r *fwResolver) Resolve(stmt *ast.IncludeStatement) (*resolver.VCL, error) {
	return nil, errors.New("no include")
}
func (r *fwResolver) Name() string           { return "" }
func (r *fwResolver) IncludePaths() []string { return nil }

var FwContents = []string{
	"sub vcl_recv {\nset req.http.a   =  \"b\";\n}\n", // parseable declarations
	"set req.http.a = \"1\";\n",                       // statement-only snippet
	"sub vcl_recv {\n  set req.http.a = \n}\n",        // syntactically invalid
}

func VerifFmtWrite() {
	orig := FwContents[nondet.Choice("content", len(FwContents))]
	const path = fwLinkPath
	fwOpen = map[*os.File]*fwHandleState{}
	fwNames = map[*os.File]string{}
	fwOps, fwFaults, fwTemps, fwStale = 0, 0, 0, 0
	fwLink = ""
	if nondet.Bool("symlink") {
		// FILE is a symbolic link to a file in another directory
		fwLink = "real/target.vcl"
		fwFS = map[string]*fwFile{fwLink: {data: []byte(orig), exists: true}}
	} else {
		fwFS = map[string]*fwFile{path: {data: []byte(orig), exists: true}}
	}
	fwFormatted = "sub vcl_recv {\n  set req.http.a = \"b\";\n}\n"
	fwOutcome = nondet.Choice("formatter", 3)

	r := NewRunner(&config.Config{Format: &config.FormatConfig{Overwrite: true, IndentWidth: 2, TrailingCommentWidth: 1, IndentStyle: "space", LineWidth: 120}, Linter: &config.LinterConfig{}}, nil)
	died, crashed := false, false
	var err error
	func() {
		defer func() {
			if x := recover(); x != nil {
				if _, ok := x.(fwDied); ok {
					died = true
				} else {
					crashed = true
				}
			}
		}()
		err = runFormat(r, &fwResolver{path, orig})
	}()
	if err != nil {
		nondet.Debug("runFormat failed")
	}
	f := fwFS[fwFollow(path)] // what reading FILE gives afterwards
	nondet.Assert(f != nil && f.exists, "the file does not exist after fmt -w")
	if f == nil {
		return
	}
	now := string(f.data)
	nondet.Observe("outcome", err != nil, died, crashed, now == orig, now == fwFormatted)
	nondet.Assert(now == orig || now == fwFormatted, "after fmt -w the file holds neither its original bytes nor the formatted text")
	if err != nil || crashed {
		nondet.Assert(now == orig, "fmt -w failed but the file is not byte-identical to what it was")
		nondet.Cover("failed")
	}
	if err == nil && !died && !crashed {
		nondet.Assert(now == fwFormatted, "fmt -w succeeded but the file does not hold the formatted text")
		nondet.Cover("succeeded")
	}
	if died {
		nondet.Cover("died")
	}
}
