package codec

//verif:pkg ast/codec
//verif:overlay zz_verif/astcmp/astcmp.go=harness/lib/astcmp.go

import (
	"bytes"
	"strconv"

	"github.com/ysugimoto/falco/v2/ast"
	"github.com/ysugimoto/falco/v2/token"
	"github.com/ysugimoto/falco/v2/zz_verif/astcmp"
	"github.com/ysugimoto/falco/v2/zz_verif/nondet"
)

// Symbolic syntax trees.  Every string leaf has a symbolic length 0..L and
// symbolic ASCII content (the parser only produces valid UTF-8; multi-byte
// content is covered by VerifStringRoundTrip), every integer / float / bool
// leaf is fully symbolic, every optional child is symbolically present.

var rtSeq int
var rtL int
var rtSmall bool // inside composite kinds: leaves of one symbolic byte, lists of 0..1

func rtName(p string) string { rtSeq++; return p + strconv.Itoa(rtSeq) }

func rtMeta() *ast.Meta { return &ast.Meta{Token: token.Token{Line: 1, Position: 1}} }

func rtStr() string {
	if rtSmall {
		return nondet.StringIn(rtName("s"), 1, 0, 0x7f)
	}
	n := nondet.IntRange(rtName("n"), 0, rtL)
	return nondet.StringIn(rtName("s"), n, 0, 0x7f)
}

// rtWord is a non-empty identifier-like string (identifiers, operators and
// keywords written in a source file are never empty).
func rtWord() string {
	if rtSmall {
		return nondet.StringIn(rtName("w"), 1, 0, 0x7f)
	}
	n := nondet.IntRange(rtName("n"), 1, rtL+1)
	return nondet.StringIn(rtName("w"), n, 0, 0x7f)
}

func rtIdent() *ast.Ident   { return &ast.Ident{Meta: rtMeta(), Value: rtWord()} }
func rtString() *ast.String { return &ast.String{Meta: rtMeta(), Value: rtStr()} }

func rtInteger() *ast.Integer {
	m := rtMeta()
	m.Token.Literal = rtWord()
	return &ast.Integer{Meta: m, Value: nondet.Int64(rtName("i"))}
}

func rtFloat() *ast.Float {
	m := rtMeta()
	m.Token.Literal = rtWord()
	return &ast.Float{Meta: m, Value: nondet.Float64(rtName("f"))}
}

var rtExprKinds = []string{"ident", "string", "ip", "rtime", "bool", "integer", "float", "grouped", "prefix", "postfix", "infix", "ifexpr", "call"}

// rtLeaf is an identifier or a string.
func rtLeaf() ast.Expression {
	if nondet.Bool(rtName("leafstr")) {
		return rtString()
	}
	return rtIdent()
}

func rtExpr(depth int) ast.Expression {
	if rtSmall {
		return rtLeaf()
	}
	k := 7
	if depth > 0 {
		k = len(rtExprKinds)
	}
	switch rtExprKinds[nondet.Choice(rtName("ek"), k)] {
	case "ident":
		return rtIdent()
	case "string":
		return rtString()
	case "ip":
		return &ast.IP{Meta: rtMeta(), Value: rtWord()}
	case "rtime":
		return &ast.RTime{Meta: rtMeta(), Value: rtWord()}
	case "bool":
		return &ast.Boolean{Meta: rtMeta(), Value: nondet.Bool(rtName("b"))}
	case "integer":
		return rtInteger()
	case "float":
		return rtFloat()
	case "grouped":
		return &ast.GroupedExpression{Meta: rtMeta(), Right: rtExpr(depth - 1)}
	case "prefix":
		return &ast.PrefixExpression{Meta: rtMeta(), Operator: rtWord(), Right: rtExpr(depth - 1)}
	case "postfix":
		return &ast.PostfixExpression{Meta: rtMeta(), Operator: rtWord(), Left: rtExpr(depth - 1)}
	case "infix":
		return &ast.InfixExpression{Meta: rtMeta(), Operator: rtWord(), Left: rtExpr(depth - 1), Right: rtExpr(depth - 1), Explicit: nondet.Bool(rtName("x"))}
	case "ifexpr":
		return &ast.IfExpression{Meta: rtMeta(), Condition: rtExpr(depth - 1), Consequence: rtExpr(depth - 1), Alternative: rtExpr(depth - 1)}
	default:
		return &ast.FunctionCallExpression{Meta: rtMeta(), Function: rtIdent(), Arguments: rtArgs(depth - 1)}
	}
}

func rtArgs(depth int) []ast.Expression {
	max := 2
	if rtSmall {
		max = 1
	}
	n := nondet.IntRange(rtName("argc"), 0, max)
	args := []ast.Expression{}
	for i := 0; i < n; i++ {
		args = append(args, rtExpr(depth))
	}
	return args
}

func rtOp() *ast.Operator { return &ast.Operator{Meta: rtMeta(), Operator: rtWord()} }

func rtBlock(n int) *ast.BlockStatement {
	b := &ast.BlockStatement{Meta: rtMeta(), Statements: []ast.Statement{}}
	for i := 0; i < n; i++ {
		b.Statements = append(b.Statements, &ast.UnsetStatement{Meta: rtMeta(), Ident: &ast.Ident{Meta: rtMeta(), Value: nondet.StringIn(rtName("u"), 1, 0, 0x7f)}})
	}
	return b
}

func rtSymBlock() *ast.BlockStatement { return rtBlock(nondet.IntRange(rtName("blk"), 0, 2)) }

func rtCase(withTest bool) *ast.CaseStatement {
	c := &ast.CaseStatement{Meta: rtMeta(), Statements: rtBlock(nondet.IntRange(rtName("blk"), 0, 1)).Statements, Fallthrough: nondet.Bool(rtName("ft"))}
	if withTest {
		c.Test = &ast.InfixExpression{Meta: rtMeta(), Operator: nondet.StringIn(rtName("o"), 1, 0, 0x7f), Right: rtString()}
	}
	return c
}

var RtKinds = []string{"add", "set", "unset", "remove", "block", "break", "fallthrough", "esi", "restart", "call", "declare", "error",
	"funccall", "goto", "gotodest", "if", "import", "include", "log", "return", "switch", "synthetic", "synthetic64",
	"acl", "backend", "director", "penaltybox", "ratecounter", "sub", "table", "nested"}

func rtStmt(kind string, depth int) ast.Statement {
	switch kind {
	case "add":
		return &ast.AddStatement{Meta: rtMeta(), Ident: rtIdent(), Operator: rtOp(), Value: rtExpr(depth)}
	case "set":
		return &ast.SetStatement{Meta: rtMeta(), Ident: rtIdent(), Operator: rtOp(), Value: rtExpr(depth)}
	case "unset":
		return &ast.UnsetStatement{Meta: rtMeta(), Ident: rtIdent()}
	case "remove":
		return &ast.RemoveStatement{Meta: rtMeta(), Ident: rtIdent()}
	case "block":
		return rtSymBlock()
	case "break":
		return &ast.BreakStatement{Meta: rtMeta()}
	case "fallthrough":
		return &ast.FallthroughStatement{Meta: rtMeta()}
	case "esi":
		return &ast.EsiStatement{Meta: rtMeta()}
	case "restart":
		return &ast.RestartStatement{Meta: rtMeta()}
	case "call":
		return &ast.CallStatement{Meta: rtMeta(), Subroutine: rtIdent(), Arguments: rtArgs(0)}
	case "declare":
		d := &ast.DeclareStatement{Meta: rtMeta(), Name: rtIdent(), ValueType: rtIdent()}
		if nondet.Bool(rtName("hasvalue")) {
			d.Value = rtExpr(depth)
		}
		return d
	case "error":
		e := &ast.ErrorStatement{Meta: rtMeta()}
		if nondet.Bool(rtName("hascode")) {
			e.Code = rtExpr(depth)
			if nondet.Bool(rtName("hasarg")) {
				e.Argument = rtExpr(0)
			}
		}
		return e
	case "funccall":
		return &ast.FunctionCallStatement{Meta: rtMeta(), Function: rtIdent(), Arguments: rtArgs(depth)}
	case "goto":
		return &ast.GotoStatement{Meta: rtMeta(), Destination: rtIdent()}
	case "gotodest":
		return &ast.GotoDestinationStatement{Meta: rtMeta(), Name: rtIdent()}
	case "if":
		kw := []string{"if", "else if", "elseif", "elsif"}
		var cond ast.Expression = rtIdent()
		if depth > 0 {
			cond = rtExpr(depth - 1)
		}
		oneOrNone := func() *ast.BlockStatement { return rtBlock(nondet.IntRange(rtName("blk"), 0, 1)) }
		s := &ast.IfStatement{Meta: rtMeta(), Keyword: "if", Condition: cond, Consequence: oneOrNone(), Another: []*ast.IfStatement{}}
		na := nondet.IntRange(rtName("another"), 0, 2)
		for i := 0; i < na; i++ {
			s.Another = append(s.Another, &ast.IfStatement{Meta: rtMeta(), Keyword: kw[1+nondet.Choice(rtName("kw"), 3)], Condition: rtIdent(), Consequence: rtBlock(0), Another: []*ast.IfStatement{}})
		}
		if nondet.Bool(rtName("haselse")) {
			s.Alternative = &ast.ElseStatement{Meta: rtMeta(), Consequence: oneOrNone()}
		}
		return s
	case "import":
		return &ast.ImportStatement{Meta: rtMeta(), Name: rtIdent()}
	case "include":
		return &ast.IncludeStatement{Meta: rtMeta(), Module: rtString()}
	case "log":
		return &ast.LogStatement{Meta: rtMeta(), Value: rtExpr(depth)}
	case "return":
		r := &ast.ReturnStatement{Meta: rtMeta(), HasParenthesis: nondet.Bool(rtName("paren"))}
		if nondet.Bool(rtName("hasexpr")) {
			r.ReturnExpression = rtExpr(depth)
		}
		return r
	case "switch":
		var ctl ast.Expression = rtIdent()
		if depth > 0 {
			ctl = rtExpr(depth - 1)
		}
		s := &ast.SwitchStatement{Meta: rtMeta(), Control: &ast.SwitchControl{Meta: rtMeta(), Expression: ctl}, Default: -1}
		nc := nondet.IntRange(rtName("cases"), 0, 2)
		for i := 0; i < nc; i++ {
			s.Cases = append(s.Cases, rtCase(true))
		}
		if nondet.Bool(rtName("hasdefault")) {
			at := nondet.IntRange(rtName("defaultat"), 0, nc)
			s.Default = at
			cs := append([]*ast.CaseStatement{}, s.Cases[:at]...)
			cs = append(cs, rtCase(false))
			s.Cases = append(cs, s.Cases[at:]...)
		}
		return s
	case "synthetic":
		return &ast.SyntheticStatement{Meta: rtMeta(), Value: rtExpr(depth)}
	case "synthetic64":
		return &ast.SyntheticBase64Statement{Meta: rtMeta(), Value: rtExpr(depth)}
	case "acl":
		a := &ast.AclDeclaration{Meta: rtMeta(), Name: rtIdent()}
		n := nondet.IntRange(rtName("cidrs"), 0, 2)
		for i := 0; i < n; i++ {
			c := &ast.AclCidr{Meta: rtMeta(), IP: &ast.IP{Meta: rtMeta(), Value: rtWord()}}
			if nondet.Bool(rtName("hasinv")) {
				c.Inverse = &ast.Boolean{Meta: rtMeta(), Value: nondet.Bool(rtName("inv"))}
			}
			if nondet.Bool(rtName("hasmask")) {
				c.Mask = rtInteger()
			}
			a.CIDRs = append(a.CIDRs, c)
		}
		return a
	case "backend":
		b := &ast.BackendDeclaration{Meta: rtMeta(), Name: rtIdent()}
		n := nondet.IntRange(rtName("props"), 0, 2)
		for i := 0; i < n; i++ {
			p := &ast.BackendProperty{Meta: rtMeta(), Key: rtIdent()}
			if nondet.Bool(rtName("probe")) {
				p.Value = &ast.BackendProbeObject{Meta: rtMeta(), Values: []*ast.BackendProperty{{Meta: rtMeta(), Key: rtIdent(), Value: rtLeaf()}}}
			} else if i == 0 {
				p.Value = rtExpr(0)
			} else {
				p.Value = rtLeaf()
			}
			b.Properties = append(b.Properties, p)
		}
		return b
	case "director":
		d := &ast.DirectorDeclaration{Meta: rtMeta(), Name: rtIdent(), DirectorType: rtIdent()}
		n := nondet.IntRange(rtName("props"), 0, 2)
		for i := 0; i < n; i++ {
			if nondet.Bool(rtName("isbackend")) {
				d.Properties = append(d.Properties, &ast.DirectorBackendObject{Meta: rtMeta(), Values: []*ast.DirectorProperty{{Meta: rtMeta(), Key: rtIdent(), Value: rtLeaf()}}})
			} else if i == 0 {
				d.Properties = append(d.Properties, &ast.DirectorProperty{Meta: rtMeta(), Key: rtIdent(), Value: rtExpr(0)})
			} else {
				d.Properties = append(d.Properties, &ast.DirectorProperty{Meta: rtMeta(), Key: rtIdent(), Value: rtLeaf()})
			}
		}
		return d
	case "penaltybox":
		return &ast.PenaltyboxDeclaration{Meta: rtMeta(), Name: rtIdent(), Block: rtBlock(0)}
	case "ratecounter":
		return &ast.RatecounterDeclaration{Meta: rtMeta(), Name: rtIdent(), Block: rtBlock(0)}
	case "sub":
		s := &ast.SubroutineDeclaration{Meta: rtMeta(), Name: rtIdent(), Block: rtSymBlock()}
		n := nondet.IntRange(rtName("params"), 0, 2)
		for i := 0; i < n; i++ {
			s.Parameters = append(s.Parameters, &ast.SubroutineParameter{Meta: rtMeta(), Type: rtIdent(), Name: rtIdent()})
		}
		if nondet.Bool(rtName("hasret")) {
			s.ReturnType = rtIdent()
		}
		return s
	case "table":
		t := &ast.TableDeclaration{Meta: rtMeta(), Name: rtIdent()}
		if nondet.Bool(rtName("hastype")) {
			t.ValueType = rtIdent()
		}
		n := nondet.IntRange(rtName("items"), 0, 2)
		for i := 0; i < n; i++ {
			var v ast.Expression = rtLeaf()
			if i == 0 {
				v = rtExpr(0)
			}
			t.Properties = append(t.Properties, &ast.TableProperty{Meta: rtMeta(), Key: rtString(), Value: v, HasComma: nondet.Bool(rtName("comma"))})
		}
		return t
	default: // "nested": statements inside blocks inside a subroutine
		rtSmall = true
		inner := rtStmt(RtKinds[nondet.Choice(rtName("inner"), 23)], 0)
		blk := &ast.BlockStatement{Meta: rtMeta(), Statements: []ast.Statement{inner, &ast.BlockStatement{Meta: rtMeta(), Statements: []ast.Statement{&ast.EsiStatement{Meta: rtMeta()}}}}}
		return &ast.SubroutineDeclaration{Meta: rtMeta(), Name: rtIdent(), Block: blk}
	}
}

// VerifRoundTrip: decode(encode(s)) is a statement of the same kind with the
// same names, operators, literal values, arguments, parameters and nested
// statements, for every statement of kind KIND with strings up to L bytes and
// expressions up to depth D (C19-b).
func VerifRoundTrip() {
	rtSeq = 0
	rtSmall = false
	rtL = nondet.Param("L")
	kind := RtKinds[nondet.Param("KIND")]
	st := rtStmt(kind, nondet.Param("D"))
	bin, err := NewEncoder().Encode(st)
	nondet.Assert(err == nil, "encoder rejects a statement the parser can produce")
	if err != nil {
		return
	}
	out, err := NewDecoder(bytes.NewReader(bin)).Decode()
	nondet.Observe("decoded", err != nil, len(out), len(bin))
	nondet.Assert(err == nil, "decoding the encoder's own output fails ("+kind+")")
	if err != nil {
		return
	}
	nondet.Assert(len(out) == 1, "decoding yields a different number of statements ("+kind+")")
	if len(out) != 1 {
		return
	}
	eq := astcmp.Stmt(st, out[0], astcmp.Codec)
	nondet.Assert(eq, "round trip changes the statement ("+kind+"): "+astcmp.Why)
	nondet.Cover("compared")
}

// VerifRoundTripMany: Encodes / Decode on a sequence of statements keeps
// their number, order and content.
func VerifRoundTripMany() {
	rtSeq = 0
	rtSmall = true
	rtL = nondet.Param("L")
	n := nondet.IntRange("count", 0, 3)
	var sts []ast.Statement
	for i := 0; i < n; i++ {
		sts = append(sts, rtStmt(RtKinds[nondet.Choice(rtName("k"), 9)], 0))
	}
	bin, err := NewEncoder().Encodes(sts)
	nondet.Assert(err == nil, "encoder rejects a statement list")
	if err != nil {
		return
	}
	out, err := NewDecoder(bytes.NewReader(bin)).Decode()
	nondet.Assert(err == nil, "decoding the encoder's own output fails (list)")
	if err != nil {
		return
	}
	nondet.Assert(astcmp.Stmts(sts, out, astcmp.Codec), "round trip changes a statement list: "+astcmp.Why)
	nondet.Cover("compared")
}

// VerifStringRoundTrip: the string helpers are inverse to each other on every
// valid UTF-8 string of N bytes (names and literal values survive).
func VerifStringRoundTrip() {
	n := nondet.Param("N")
	s := nondet.String("s", n)
	valid := true
	for _, r := range s {
		if r == 0xFFFD {
			valid = false // either an encoding error or a literal U+FFFD: both excluded
		}
	}
	nondet.Assume(valid)
	back := bytesToString(stringToBytes(s))
	nondet.Observe("len", len(back))
	nondet.Assert(back == s, "string changes in the codec's byte conversion")
	nondet.Cover("compared")
}

// VerifFrameLength: a frame whose payload has n bytes is read back with
// exactly those n bytes, for n around the byte and 16-bit boundaries.
func VerifFrameLength() {
	sizes := []int{0, 1, 2, 3, 254, 255, 256, 257, 258, 511, 512, 513, 1024, 65533, 65534, 65535, 65536, 65537, 65538}
	n := sizes[nondet.Choice("size", len(sizes))]
	nondet.Observe("n", n)
	payload := make([]byte, n)
	if n > 0 {
		payload[0] = nondet.Byte("first")
		payload[n-1] = nondet.Byte("last")
	}
	st := &ast.LogStatement{Meta: rtMeta(), Value: &ast.String{Meta: rtMeta(), Value: string(payload)}}
	for i := 0; i < len(payload); i++ {
		if payload[i] >= 0x80 {
			return // keep the payload valid UTF-8 (ASCII)
		}
	}
	bin, err := NewEncoder().Encode(st)
	if err != nil {
		return
	}
	out, err := NewDecoder(bytes.NewReader(bin)).Decode()
	nondet.Assert(err == nil, "decoding fails for a string payload")
	if err != nil {
		return
	}
	nondet.Assert(len(out) == 1, "payload length corrupts the frame stream")
	if len(out) != 1 {
		return
	}
	l, ok := out[0].(*ast.LogStatement)
	nondet.Assert(ok, "kind changes")
	if !ok {
		return
	}
	s, ok := l.Value.(*ast.String)
	nondet.Assert(ok && s.Value == string(payload), "string payload changes in the round trip")
	nondet.Cover("compared")
}

// VerifStreamBoundary: a stream longer than the decoder's 4096-byte read
// buffer, with the second statement's frame header at every alignment around
// the buffer boundary: number, order and content of the statements survive.
func VerifStreamBoundary() {
	n := 4070 + nondet.Choice("pad", 40)
	nondet.Observe("n", n)
	payload := make([]byte, n)
	for i := range payload {
		payload[i] = 'a'
	}
	payload[0] = nondet.Byte("first")
	payload[n-1] = nondet.Byte("last")
	t0, t1 := nondet.Byte("t0"), nondet.Byte("t1")
	if payload[0] >= 0x80 || payload[n-1] >= 0x80 || t0 >= 0x80 || t1 >= 0x80 {
		return
	}
	tail := string([]byte{t0, t1})
	stmts := []ast.Statement{
		&ast.LogStatement{Meta: rtMeta(), Value: &ast.String{Meta: rtMeta(), Value: string(payload)}},
		&ast.LogStatement{Meta: rtMeta(), Value: &ast.String{Meta: rtMeta(), Value: tail}},
		&ast.RestartStatement{Meta: rtMeta()},
	}
	bin, err := NewEncoder().Encodes(stmts)
	if err != nil {
		return
	}
	out, err := NewDecoder(bytes.NewReader(bin)).Decode()
	nondet.Assert(err == nil, "decoding a stream longer than the read buffer fails")
	if err != nil {
		return
	}
	nondet.Assert(len(out) == 3, "the number of statements changes in a stream longer than the read buffer")
	if len(out) != 3 {
		return
	}
	l0, ok0 := out[0].(*ast.LogStatement)
	l1, ok1 := out[1].(*ast.LogStatement)
	_, ok2 := out[2].(*ast.RestartStatement)
	nondet.Assert(ok0 && ok1 && ok2, "statement kinds change in a stream longer than the read buffer")
	if !(ok0 && ok1 && ok2) {
		return
	}
	s0, ok0 := l0.Value.(*ast.String)
	s1, ok1 := l1.Value.(*ast.String)
	nondet.Assert(ok0 && ok1 && s0.Value == string(payload) && s1.Value == tail, "string payloads change in a stream longer than the read buffer")
	nondet.Cover("compared")
}
