package codec

//verif:pkg ast/codec

import (
	"bytes"

	"github.com/ysugimoto/falco/v2/zz_verif/nondet"
)

// VerifDecode: decoding any byte string of length N terminates with
// statements or an error and never crashes (C19-a).
func VerifDecode() {
	n := nondet.Param("N")
	b := nondet.Bytes("b", n)
	stmts, err := NewDecoder(bytes.NewReader(b)).Decode()
	nondet.Observe("result", len(stmts), err != nil)
	nondet.Cover("returned")
}
