package codec

//verif:pkg ast/codec

import (
	"bytes"

	"github.com/ysugimoto/falco/v2/ast"
	"github.com/ysugimoto/falco/v2/token"
	"github.com/ysugimoto/falco/v2/zz_verif/nondet"
)

// Exemplars: one concrete statement per node kind, encoded by the real
// encoder; the decoder is then run on symbolic mutations of those bytes.

func mm() *ast.Meta           { return &ast.Meta{Token: token.Token{Line: 1, Position: 1, Literal: "1"}} }
func mid(s string) *ast.Ident { return &ast.Ident{Meta: mm(), Value: s} }
func mstr(s string) *ast.String {
	return &ast.String{Meta: mm(), Value: s}
}
func mblk(s ...ast.Statement) *ast.BlockStatement {
	return &ast.BlockStatement{Meta: mm(), Statements: s}
}

func mutExemplars() []ast.Statement {
	op := func(s string) *ast.Operator { return &ast.Operator{Meta: mm(), Operator: s} }
	infix := &ast.InfixExpression{Meta: mm(), Left: mid("a"), Operator: "==", Right: mstr("b")}
	unset := &ast.UnsetStatement{Meta: mm(), Ident: mid("u")}
	return []ast.Statement{
		&ast.SetStatement{Meta: mm(), Ident: mid("x"), Operator: op("="), Value: &ast.Integer{Meta: mm(), Value: 7}},
		&ast.SetStatement{Meta: mm(), Ident: mid("x"), Operator: op("+="), Value: &ast.Float{Meta: mm(), Value: 1.5}},
		&ast.AddStatement{Meta: mm(), Ident: mid("x"), Operator: op("="), Value: &ast.PrefixExpression{Meta: mm(), Operator: "!", Right: mid("y")}},
		&ast.LogStatement{Meta: mm(), Value: &ast.InfixExpression{Meta: mm(), Left: mstr("a"), Operator: "+", Right: &ast.FunctionCallExpression{Meta: mm(), Function: mid("f"), Arguments: []ast.Expression{mid("b"), &ast.Boolean{Meta: mm(), Value: true}}}}},
		&ast.IfStatement{Meta: mm(), Keyword: "if", Condition: infix, Consequence: mblk(unset),
			Another:     []*ast.IfStatement{{Meta: mm(), Keyword: "else if", Condition: mid("c"), Consequence: mblk(), Another: []*ast.IfStatement{}}},
			Alternative: &ast.ElseStatement{Meta: mm(), Consequence: mblk(unset)}},
		&ast.SwitchStatement{Meta: mm(), Control: &ast.SwitchControl{Meta: mm(), Expression: mid("s")}, Default: 1,
			Cases: []*ast.CaseStatement{{Meta: mm(), Test: &ast.InfixExpression{Meta: mm(), Operator: "==", Right: mstr("1")}, Statements: []ast.Statement{unset}, Fallthrough: true}, {Meta: mm(), Statements: []ast.Statement{&ast.BreakStatement{Meta: mm()}}}}},
		&ast.ReturnStatement{Meta: mm(), ReturnExpression: mid("lookup"), HasParenthesis: true},
		&ast.ErrorStatement{Meta: mm(), Code: &ast.Integer{Meta: mm(), Value: 600}, Argument: mstr("m")},
		&ast.DeclareStatement{Meta: mm(), Name: mid("var.a"), ValueType: mid("STRING")},
		&ast.CallStatement{Meta: mm(), Subroutine: mid("s")},
		&ast.FunctionCallStatement{Meta: mm(), Function: mid("f"), Arguments: []ast.Expression{&ast.RTime{Meta: mm(), Value: "1s"}}},
		&ast.SubroutineDeclaration{Meta: mm(), Name: mid("f"), ReturnType: mid("BOOL"), Block: mblk(&ast.ReturnStatement{Meta: mm(), ReturnExpression: &ast.Boolean{Meta: mm(), Value: true}})},
		&ast.AclDeclaration{Meta: mm(), Name: mid("a"), CIDRs: []*ast.AclCidr{{Meta: mm(), Inverse: &ast.Boolean{Meta: mm(), Value: true}, IP: &ast.IP{Meta: mm(), Value: "10.0.0.0"}, Mask: &ast.Integer{Meta: mm(), Value: 8}}}},
		&ast.BackendDeclaration{Meta: mm(), Name: mid("b"), Properties: []*ast.BackendProperty{{Meta: mm(), Key: mid("host"), Value: mstr("h")}, {Meta: mm(), Key: mid("probe"), Value: &ast.BackendProbeObject{Meta: mm(), Values: []*ast.BackendProperty{{Meta: mm(), Key: mid("request"), Value: mstr("GET")}}}}}},
		&ast.DirectorDeclaration{Meta: mm(), Name: mid("d"), DirectorType: mid("random"), Properties: []ast.Expression{&ast.DirectorProperty{Meta: mm(), Key: mid("quorum"), Value: mstr("50%")}, &ast.DirectorBackendObject{Meta: mm(), Values: []*ast.DirectorProperty{{Meta: mm(), Key: mid("backend"), Value: mid("b")}}}}},
		&ast.TableDeclaration{Meta: mm(), Name: mid("t"), ValueType: mid("STRING"), Properties: []*ast.TableProperty{{Meta: mm(), Key: mstr("k"), Value: mstr("v")}}},
		&ast.PenaltyboxDeclaration{Meta: mm(), Name: mid("p"), Block: mblk()},
		&ast.RatecounterDeclaration{Meta: mm(), Name: mid("r"), Block: mblk()},
		&ast.GotoStatement{Meta: mm(), Destination: mid("l")},
		&ast.GotoDestinationStatement{Meta: mm(), Name: mid("l:")},
		&ast.IncludeStatement{Meta: mm(), Module: mstr("m")},
		&ast.ImportStatement{Meta: mm(), Name: mid("m")},
		&ast.SyntheticStatement{Meta: mm(), Value: &ast.IfExpression{Meta: mm(), Condition: mid("c"), Consequence: mstr("a"), Alternative: mstr("b")}},
		&ast.SyntheticBase64Statement{Meta: mm(), Value: &ast.GroupedExpression{Meta: mm(), Right: &ast.PostfixExpression{Meta: mm(), Left: &ast.Integer{Meta: mm(), Value: 5}, Operator: "%"}}},
		&ast.RemoveStatement{Meta: mm(), Ident: mid("r")},
		mblk(&ast.EsiStatement{Meta: mm()}, &ast.RestartStatement{Meta: mm()}, &ast.FallthroughStatement{Meta: mm()}),
	}
}

func mutRun(b []byte) {
	stmts, err := NewDecoder(bytes.NewReader(b)).Decode()
	nondet.Observe("result", len(stmts), err != nil)
	nondet.Cover("returned")
}

// VerifDecodeTruncated: every proper prefix of a valid encoding, optionally
// followed by one arbitrary byte, decodes to statements or an error.
func VerifDecodeTruncated() {
	ex := mutExemplars()
	st := ex[nondet.Param("EX")]
	bin, err := NewEncoder().Encode(st)
	if err != nil {
		return
	}
	cut := nondet.IntRange("cut", 0, len(bin))
	b := append([]byte{}, bin[:cut]...)
	if nondet.Bool("extra") {
		b = append(b, nondet.Byte("x"))
	}
	mutRun(b)
}

// VerifDecodeOverwritten: a valid encoding with the byte at any one offset
// replaced by any value (and, with TWO=1, a second one) decodes to statements
// or an error.
func VerifDecodeOverwritten() {
	ex := mutExemplars()
	st := ex[nondet.Param("EX")]
	bin, err := NewEncoder().Encode(st)
	if err != nil {
		return
	}
	b := append([]byte{}, bin...)
	p := nondet.IntRange("p", 0, len(b)-1)
	b[p] = nondet.Byte("v")
	if nondet.Param("TWO") == 1 {
		q := nondet.IntRange("q", 0, len(b)-1)
		b[q] = nondet.Byte("w")
	}
	mutRun(b)
}

// VerifExemplarCount reports how many exemplars there are (used by the spec).
func VerifExemplarCount() { nondet.Observe("count", len(mutExemplars())) }
