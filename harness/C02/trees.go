package parser

//verif:pkg parser
//verif:overlay zz_verif/astcmp/astcmp.go=harness/lib/astcmp.go

import (
	"strconv"
	"strings"

	"github.com/ysugimoto/falco/v2/ast"
	"github.com/ysugimoto/falco/v2/lexer"
	"github.com/ysugimoto/falco/v2/zz_verif/nondet"
)

// C02-a: operators group as the precedence table of the property states.
// The source `set x = o1 op1 o2 op2 o3 [op3 o4];` is built from symbolic
// operator choices (juxtaposition included) and parsed by the real lexer and
// parser; the tree's grouping must equal that of a reference
// precedence-climbing parser written from the statement's table.

var ptOps = []string{"||", "&&", "~", "!~", "==", "!=", "<", ">", "<=", ">=", "+", ""}

// loosest ... tightest, all left-associative
func ptLevel(op string) int {
	switch op {
	case "||":
		return 1
	case "&&":
		return 2
	case "~", "!~":
		return 3
	case "==", "!=":
		return 4
	case "<", ">", "<=", ">=":
		return 5
	}
	return 6 // concatenation: explicit + or juxtaposition
}

func ptOpName(op string) string {
	if op == "" {
		return "+"
	}
	return op
}

// reference: precedence climbing over operands o[0..n] and operators ops[0..n-1]
func ptRef(o []string, ops []string) string {
	pos := 0
	var climb func(min int) string
	climb = func(min int) string {
		left := o[pos]
		for pos < len(ops) && ptLevel(ops[pos]) >= min {
			op := ops[pos]
			pos++
			right := climb(ptLevel(op) + 1)
			left = "(" + left + " " + ptOpName(op) + " " + right + ")"
		}
		return left
	}
	return climb(1)
}

// shape of the real tree
func ptShape(e ast.Expression) string {
	switch t := e.(type) {
	case *ast.Ident:
		return t.Value
	case *ast.String:
		return "\"" + t.Value + "\""
	case *ast.Integer:
		return strconv.FormatInt(t.Value, 10)
	case *ast.Boolean:
		if t.Value {
			return "true"
		}
		return "false"
	case *ast.PrefixExpression:
		return "{" + t.Operator + ptShape(t.Right) + "}"
	case *ast.GroupedExpression:
		return "[" + ptShape(t.Right) + "]"
	case *ast.InfixExpression:
		return "(" + ptShape(t.Left) + " " + t.Operator + " " + ptShape(t.Right) + ")"
	case *ast.IfExpression:
		return "if<" + ptShape(t.Condition) + "," + ptShape(t.Consequence) + "," + ptShape(t.Alternative) + ">"
	case *ast.FunctionCallExpression:
		var as []string
		for _, a := range t.Arguments {
			as = append(as, ptShape(a))
		}
		return t.Function.Value + "<" + strings.Join(as, ",") + ">"
	}
	return "?"
}

// operand forms: source text and the shape it must have in the tree
var ptOperandSrc = []string{"", "\"s\"", "!req.http.n", "(req.http.p == req.http.q)", "if(req.http.c, \"t\", \"f\")", "{\"l\"}", "std.f(req.http.g)"}
var ptOperandShape = []string{"", "\"s\"", "{!req.http.n}", "[(req.http.p == req.http.q)]", "if<req.http.c,\"t\",\"f\">", "\"l\"", "std.f<req.http.g>"}

func ptParseValue(src string) (ast.Expression, error) {
	vcl, err := New(lexer.NewFromString(src)).ParseVCL()
	if err != nil {
		return nil, err
	}
	sub := vcl.Statements[0].(*ast.SubroutineDeclaration)
	return sub.Block.Statements[0].(*ast.SetStatement).Value, nil
}

func VerifPrecedence() {
	n := nondet.Param("OPS")
	names := []string{"op0", "op1", "op2", "op3"}
	idents := []string{"req.http.a", "req.http.b", "req.http.c", "req.http.d", "req.http.e"}
	var ops []string
	for k := 0; k < n; k++ {
		ops = append(ops, ptOps[nondet.Choice(names[k], len(ptOps))])
	}
	// operands: identifiers, except one position (symbolic) that takes a symbolic other form
	operands := append([]string{}, idents[:n+1]...)
	shapes := append([]string{}, idents[:n+1]...)
	if nondet.Param("FORMS") == 1 {
		at := nondet.IntRange("formAt", 0, n)
		f := nondet.IntRange("form", 1, len(ptOperandSrc)-1)
		operands[at], shapes[at] = ptOperandSrc[f], ptOperandShape[f]
		if at > 0 && (f == 2 || f == 3) {
			// `x !y` and `x (y)` are not juxtapositions (negated match / call syntax): an explicit operator precedes these forms
			nondet.Assume(ops[at-1] != "")
		}
	}
	var sb strings.Builder
	sb.WriteString("sub s {\n  set req.http.x = ")
	for k := 0; k <= n; k++ {
		if k > 0 {
			if ops[k-1] == "" {
				sb.WriteString(" ")
			} else {
				sb.WriteString(" " + ops[k-1] + " ")
			}
		}
		sb.WriteString(operands[k])
	}
	sb.WriteString(";\n}\n")
	v, err := ptParseValue(sb.String())
	nondet.Observe("parsed", err != nil)
	nondet.Assert(err == nil, "an expression over the documented operators does not parse")
	if err != nil {
		return
	}
	want := ptRef(shapes, ops)
	got := ptShape(v)
	nondet.Assert(got == want, "operators do not group as the precedence table states")
	nondet.Cover("checked")
}

// C02-b: numeric literals keep their exact value.
func VerifIntegerLiteral() {
	// decimal digit strings of symbolic digits, optionally in the 19/20-digit neighbourhood of 2^63
	var text string
	switch nondet.Choice("form", 4) {
	case 0:
		n := nondet.IntRange("len", 1, 4)
		text = nondet.StringIn("d", n, '0', '9')
	case 1:
		text = "92233720368547758" + nondet.StringIn("d", 2, '0', '9')
	case 2:
		n := nondet.IntRange("len", 1, 3)
		h := nondet.String("h", n)
		for i := 0; i < len(h); i++ {
			c := h[i]
			nondet.Assume(c >= '0' && c <= '9' || c >= 'a' && c <= 'f' || c >= 'A' && c <= 'F')
		}
		text = "0x" + h
	default:
		text = "0x7FFFFFFFFFFFFF" + nondet.StringIn("d", 2, '0', '9')
	}
	neg := nondet.Bool("neg")
	src := "sub s {\n  set var.i = " + text + ";\n}\n"
	if neg {
		src = "sub s {\n  set var.i = -" + text + ";\n}\n"
	}
	v, err := ptParseValue(src)
	// reference value (fits in uint64 by construction)
	var want uint64
	if strings.HasPrefix(text, "0x") {
		for i := 2; i < len(text); i++ {
			c := text[i]
			var d uint64
			switch {
			case c >= '0' && c <= '9':
				d = uint64(c - '0')
			case c >= 'a' && c <= 'f':
				d = uint64(c-'a') + 10
			default:
				d = uint64(c-'A') + 10
			}
			want = want*16 + d
		}
	} else {
		for i := 0; i < len(text); i++ {
			want = want*10 + uint64(text[i]-'0')
		}
	}
	fits := want <= 1<<63-1 || (neg && want == 1<<63)
	nondet.Observe("literal", err != nil, fits)
	if !fits {
		nondet.Assert(err != nil, "an integer literal beyond the signed 64-bit range is accepted")
		nondet.Cover("rejected")
		return
	}
	nondet.Assert(err == nil, "an integer literal within the signed 64-bit range is rejected")
	if err != nil {
		return
	}
	var inner ast.Expression = v
	if neg {
		p, ok := v.(*ast.PrefixExpression)
		nondet.Assert(ok && p.Operator == "-", "a negative literal is not a prefix minus")
		if !ok {
			return
		}
		inner = p.Right
	}
	i, ok := inner.(*ast.Integer)
	nondet.Assert(ok, "an integer literal does not parse to an INTEGER node")
	if !ok {
		return
	}
	nondet.Assert(uint64(i.Value) == want, "an integer literal does not keep its exact value")
	nondet.Assert(i.Token.Literal == text, "the source spelling of an integer literal is not kept")
	nondet.Cover("accepted")
}

// C02-b: %XX / %uXXXX / %u{...} escapes decode only in double-quoted strings.
func VerifStringEscapes() {
	body := nondet.StringIn("s", nondet.Param("N"), 0x20, 0x7e)
	for i := 0; i < len(body); i++ {
		nondet.Assume(body[i] != '"' && body[i] != '\\')
	}
	long := nondet.Bool("long")
	src := "sub s {\n  set var.s = \"" + body + "\";\n}\n"
	if long {
		src = "sub s {\n  set var.s = {\"" + body + "\"};\n}\n"
	}
	v, err := ptParseValue(src)
	hasPercent := strings.Contains(body, "%")
	nondet.Observe("string", err != nil, hasPercent)
	if long || !hasPercent {
		nondet.Assert(err == nil, "a string without escapes (or a long string) is rejected")
		if err != nil {
			return
		}
		s, ok := v.(*ast.String)
		nondet.Assert(ok && s.Value == body, "a string without escapes (or a long string) does not keep its exact text")
		nondet.Cover("verbatim")
		return
	}
	// double-quoted with a percent sign: either an error (malformed escape) or a decoded value;
	// the part before the first % is kept in any case
	if err != nil {
		nondet.Cover("malformed")
		return
	}
	s, ok := v.(*ast.String)
	nondet.Assert(ok, "a string literal does not parse to a STRING node")
	if !ok {
		return
	}
	first := strings.Index(body, "%")
	nondet.Assert(len(s.Value) >= first && s.Value[:first] == body[:first], "the text before the first escape changes")
	// %XX with two hex digits of an ASCII code decodes to that byte
	if first+2 < len(body) || first+2 == len(body)-0 {
		if first+2 < len(body)+0 && first+3 <= len(body) {
			h1, h2 := body[first+1], body[first+2]
			hex := func(c byte) int {
				switch {
				case c >= '0' && c <= '9':
					return int(c - '0')
				case c >= 'a' && c <= 'f':
					return int(c-'a') + 10
				case c >= 'A' && c <= 'F':
					return int(c-'A') + 10
				}
				return -1
			}
			if hex(h1) >= 0 && hex(h1) < 8 && hex(h2) >= 0 {
				code := byte(hex(h1)*16 + hex(h2))
				if code == 0 {
					nondet.Assert(len(s.Value) == first, "%00 does not truncate the string")
				} else {
					nondet.Assert(len(s.Value) > first && s.Value[first] == code, "%XX does not decode to the byte XX")
				}
				nondet.Cover("decoded")
			}
		}
	}
}
