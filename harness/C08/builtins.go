package function

//verif:pkg interpreter/function
//verif:generate python3 tools/gen_c05_tables.py
//verif:overlay interpreter/function/zz_verif_c08_fntable.go=build/gen/C08/fntable.go

import (
	"io"
	ghttp "net/http"
	"net/url"
	"strings"
	"sync/atomic"
	"time"

	"github.com/ysugimoto/falco/v2/ast"
	"github.com/ysugimoto/falco/v2/interpreter/context"
	ihttp "github.com/ysugimoto/falco/v2/interpreter/http"
	"github.com/ysugimoto/falco/v2/interpreter/value"
	"github.com/ysugimoto/falco/v2/zz_verif/nondet"
)

// C08-c: built-in functions applied to any arguments of their declared types
// yield a value or an error.  The function (parameter FN, by name order of
// __generator__/builtin.yml, regenerated per run) is called through the real
// table (function.Exists + Function.Call, i.e. with the argument conversion
// the simulator applies) on arguments whose payloads are symbolic: STRING of
// up to L arbitrary bytes, all INTEGER / RTIME / BOOL values, FLOAT, IP (any
// IPv4 address), TIME (any second of 1970..2100); table, ACL, backend and
// ratecounter arguments name fixed declarations.  Nothing is asserted about
// the result: every Go run-time fault, explicit panic and exhausted
// instruction budget on the way is a violation.

func bm() *ast.Meta { return &ast.Meta{} }

func biContext() *context.Context {
	ctx := context.New()
	body := func() io.ReadCloser { return io.NopCloser(strings.NewReader("")) }
	ctx.Request = ihttp.WrapRequest(&ghttp.Request{Method: "GET", Header: ghttp.Header{"Cookie": []string{"a=1; b=2"}, "Accept-Language": []string{"en,ja;q=0.5"}}, URL: &url.URL{Path: "/p", RawQuery: "a=1&b=2"}, Body: body(), RemoteAddr: "192.0.2.7:4711", Host: "example.com", Proto: "HTTP/1.1"})
	ctx.BackendRequest = ihttp.WrapRequest(&ghttp.Request{Method: "GET", Header: ghttp.Header{}, URL: &url.URL{Path: "/p"}, Body: body(), Host: "example.com", Proto: "HTTP/1.1"})
	ctx.BackendResponse = ihttp.WrapResponse(&ghttp.Response{StatusCode: 200, Header: ghttp.Header{}, Body: body()})
	ctx.Object = ihttp.WrapResponse(&ghttp.Response{StatusCode: 200, Header: ghttp.Header{}, Body: body()})
	ctx.Response = ihttp.WrapResponse(&ghttp.Response{StatusCode: 200, Header: ghttp.Header{}, Body: body()})
	bd := &ast.BackendDeclaration{Meta: bm(), Name: &ast.Ident{Meta: bm(), Value: "origin"}, Properties: []*ast.BackendProperty{{Meta: bm(), Key: &ast.Ident{Meta: bm(), Value: "host"}, Value: &ast.String{Meta: bm(), Value: "example.com"}}}}
	ctx.Backend = &value.Backend{Value: bd, Healthy: &atomic.Bool{}}
	ctx.Backends = map[string]*value.Backend{"origin": ctx.Backend}
	ctx.Tables = map[string]*ast.TableDeclaration{"tbl": {Meta: bm(), Name: &ast.Ident{Meta: bm(), Value: "tbl"}, ValueType: &ast.Ident{Meta: bm(), Value: "STRING"},
		Properties: []*ast.TableProperty{{Meta: bm(), Key: &ast.String{Meta: bm(), Value: "k"}, Value: &ast.String{Meta: bm(), Value: "v"}}}}}
	ctx.Acls = map[string]*value.Acl{"acl1": {Value: &ast.AclDeclaration{Meta: bm(), Name: &ast.Ident{Meta: bm(), Value: "acl1"}, CIDRs: []*ast.AclCidr{{Meta: bm(), IP: &ast.IP{Meta: bm(), Value: "192.0.2.0"}, Mask: &ast.Integer{Meta: bm(), Value: 24}}}}}}
	ctx.Ratecounters["rc"] = value.NewRatecounter(&ast.RatecounterDeclaration{Meta: bm(), Name: &ast.Ident{Meta: bm(), Value: "rc"}})
	ctx.Penaltyboxes["pb"] = value.NewPenaltybox(&ast.PenaltyboxDeclaration{Meta: bm(), Name: &ast.Ident{Meta: bm(), Value: "pb"}})
	ctx.Scope = context.RecvScope
	return ctx
}

func biArg(ctx *context.Context, t, n string, l int) value.Value {
	switch t {
	case "STRING":
		return &value.String{Value: nondet.String(n, nondet.IntRange(n+"_len", 0, l))}
	case "INTEGER":
		return &value.Integer{Value: nondet.Int64(n)}
	case "FLOAT":
		return &value.Float{Value: nondet.Float64(n)}
	case "BOOL":
		return &value.Boolean{Value: nondet.Bool(n)}
	case "RTIME":
		return &value.RTime{Value: time.Duration(nondet.Int64(n))}
	case "TIME":
		s := nondet.Int64(n)
		nondet.Assume(s >= 0 && s <= 4102444800)
		return &value.Time{Value: time.Unix(s, 0).UTC()}
	case "IP":
		b := nondet.Bytes(n, 4)
		return &value.IP{Value: []byte{b[0], b[1], b[2], b[3]}}
	case "BACKEND":
		return ctx.Backend
	case "ACL":
		return ctx.Acls["acl1"]
	case "TABLE":
		return &value.Ident{Value: "tbl"}
	case "ID":
		return &value.Ident{Value: []string{"tbl", "rc", "pb", "acl1", "origin"}[nondet.Choice(n+"_id", 5)]}
	case "STRING_LIST":
		return &value.String{Value: nondet.String(n, 1)}
	}
	return &value.String{Value: "x"}
}

func VerifBuiltin() {
	f := zzFns[nondet.Param("FN")]
	l := nondet.Param("L")
	ctx := biContext()
	fn, err := Exists(context.RecvScope, f.name)
	if err != nil {
		// not callable in vcl_recv: try the scope the table names first
		for _, s := range []context.Scope{context.DeliverScope, context.FetchScope, context.ErrorScope, context.MissScope, context.LogScope} {
			if fn, err = Exists(s, f.name); err == nil {
				ctx.Scope = s
				break
			}
		}
	}
	nondet.Assert(err == nil, "a function of the reference table is not defined in the simulator in any scope: "+f.name)
	if err != nil {
		return
	}
	var alt []string
	if len(f.args) > 0 {
		if sig := nondet.ParamOr("SIG", -1); sig >= 0 {
			alt = f.args[sig] // one signature pinned (the other needs a conversion the engine does not model)
		} else {
			alt = f.args[nondet.Choice("signature", len(f.args))]
		}
	}
	names := []string{"a0", "a1", "a2", "a3", "a4", "a5", "a6", "a7", "a8", "a9", "a10"}
	var args []value.Value
	for k, t := range alt {
		args = append(args, biArg(ctx, t, names[k], l))
	}
	v, cerr := fn.Call(ctx, args...)
	nondet.Observe("returned", cerr != nil)
	if cerr == nil && f.ret != "" {
		nondet.Assert(v != nil, f.name+" returns neither a value nor an error")
	}
	nondet.Cover("returned")
}
