package variable

//verif:pkg interpreter/variable

import (
	"time"

	"github.com/ysugimoto/falco/v2/interpreter/value"
	"github.com/ysugimoto/falco/v2/zz_verif/nondet"
)

var AssignOps = []string{"=", "+=", "-=", "*=", "/=", "%=", "|=", "&=", "^=", "<<=", ">>=", "rol=", "ror=", "||=", "&&="}

var ValueKinds = []string{"INTEGER", "FLOAT", "RTIME", "BOOL", "STRING", "TIME", "IP"}

// symValue builds a runtime value of the given kind whose payload and flags
// are all symbolic (every representable operand).
func symValue(kind, n string) value.Value {
	switch kind {
	case "INTEGER":
		return &value.Integer{Value: nondet.Int64(n), Literal: nondet.Bool(n + "_lit"), IsNAN: nondet.Bool(n + "_nan"),
			IsNegativeInf: nondet.Bool(n + "_ninf"), IsPositiveInf: nondet.Bool(n + "_pinf")}
	case "FLOAT":
		return &value.Float{Value: nondet.Float64(n), Literal: nondet.Bool(n + "_lit"), IsNAN: nondet.Bool(n + "_nan"),
			IsNegativeInf: nondet.Bool(n + "_ninf"), IsPositiveInf: nondet.Bool(n + "_pinf")}
	case "RTIME":
		return &value.RTime{Value: time.Duration(nondet.Int64(n)), Literal: nondet.Bool(n + "_lit")}
	case "BOOL":
		return &value.Boolean{Value: nondet.Bool(n), Literal: nondet.Bool(n + "_lit")}
	case "STRING":
		ln := nondet.IntRange(n+"_len", 0, 2)
		return &value.String{Value: nondet.StringIn(n, ln, 0x20, 0x7e), Literal: nondet.Bool(n + "_lit"), IsNotSet: nondet.Bool(n + "_notset")}
	case "TIME":
		// exemplar instants (time formatting of a symbolic instant is out of the solver's reach): symbolic choice, symbolic flag
		secs := []int64{0, 1767225600, -1, 253402300800, -62135596800}
		return &value.Time{Value: time.Unix(secs[nondet.Choice(n, len(secs))], 0).UTC(), OutOfBounds: nondet.Bool(n + "_oob")}
	default: // IP: exemplar addresses, symbolic flags
		ips := [][]byte{{10, 0, 0, 1}, {0, 0, 0, 0}, {0x20, 0x01, 0x0d, 0xb8, 0, 0, 0, 0, 0, 0, 0, 0, 0, 0, 0, 1}, nil}
		return &value.IP{Value: ips[nondet.Choice(n, len(ips))], Literal: nondet.Bool(n + "_lit"), IsNotSet: nondet.Bool(n + "_notset")}
	}
}

// VerifAssignTotal: for every assignment operator and every pair of operand
// values of kinds LT and RT, the dispatcher returns nil or an error - it never
// panics (C08-a).  Any Go run-time fault is a violation by construction.
func VerifAssignTotal() {
	lt, rt := ValueKinds[nondet.Param("LT")], ValueKinds[nondet.Param("RT")]
	op := AssignOps[nondet.Param("OP")]
	l, r := symValue(lt, "l"), symValue(rt, "r")
	if lt == "IP" && rt == "STRING" {
		// address parsing runs in the host: exemplar spellings, symbolic flags
		texts := []string{"10.0.0.1", "::1", "x", "", "256.1.1.1"}
		r = &value.String{Value: texts[nondet.Choice("rtext", len(texts))], Literal: nondet.Bool("r_lit"), IsNotSet: nondet.Bool("r_notset")}
	}
	err := doAssign(l, op, r)
	nondet.Observe("err", err != nil)
	nondet.Cover("returned")
}
