package linter

//verif:pkg linter
//verif:intercept os/exec.LookPath plLookPath
//verif:intercept os/exec.CommandContext plCommand
//verif:intercept (*os/exec.Cmd).Output plOutput
//verif:intercept context.WithTimeout plWithTimeout
//verif:intercept encoding/json.Unmarshal plUnmarshal

import (
	gocontext "context"
	"errors"
	"io"
	"os/exec"
	"time"

	"github.com/ysugimoto/falco/v2/ast"
	"github.com/ysugimoto/falco/v2/config"
	"github.com/ysugimoto/falco/v2/plugin"
	"github.com/ysugimoto/falco/v2/token"
	"github.com/ysugimoto/falco/v2/zz_verif/nondet"
)

// C18-a: several lint plugins run for one statement; every diagnostic each of
// them returns is reported, under every interleaving within the preemption
// bound, and no data race occurs.  The plugin processes are stubs: LookPath
// finds the command or not, Output drains Cmd.Stdin as os/exec does and fails without a request, or fails, or returns a response with 0..2
// diagnostics - all symbolic; the goroutines, the WaitGroup, Linter.Error and
// its lock are the real code, run under the engine's scheduler.

var plOutcome = map[string]int{} // plugin name -> 0: not found, 1: fails, 2..4: answers with 0..2 diagnostics

func plLookPath(name string) (string, error) {
	if plOutcome[name] == 0 {
		return "", errors.New("not found")
	}
	return "/bin/" + name, nil
}

func plCommand(c gocontext.Context, name string, args ...string) *exec.Cmd {
	return &exec.Cmd{Path: name}
}

func plOutput(c *exec.Cmd) ([]byte, error) {
	o := plOutcome[c.Path[len("/bin/"):]]
	// what os/exec does with Cmd.Stdin: copy it to the child until EOF.  A plugin
	// that does not receive the encoded statement cannot decode its request.
	var in []byte
	if c.Stdin != nil {
		in, _ = io.ReadAll(c.Stdin)
	}
	if len(in) == 0 {
		return nil, errors.New("exit status 1: unexpected frame found (no request on stdin)")
	}
	if o == 1 {
		return nil, errors.New("exit status 1")
	}
	return []byte{byte(o - 2)}, nil // the "JSON": number of diagnostics
}

func plWithTimeout(c gocontext.Context, d time.Duration) (gocontext.Context, gocontext.CancelFunc) {
	return c, func() {}
}

func plUnmarshal(data []byte, v any) error {
	resp := v.(*plugin.LinterResponse)
	for k := 0; k < int(data[0]); k++ {
		resp.Errors = append(resp.Errors, &plugin.Error{Severity: plugin.WARNING, Message: "from plugin"})
	}
	return nil
}

func VerifPlugins() {
	n := nondet.Param("P")
	names := []string{"a", "b", "c", "d"}
	l := New(&config.LinterConfig{})
	var cs ast.Comments
	want := 0
	plOutcome = map[string]int{}
	for k := 0; k < n; k++ {
		o := nondet.Choice("outcome_"+names[k], 5)
		plOutcome[CustomCommandPrefix+names[k]] = o
		if o <= 1 {
			want++ // "command not found" / "command failed": one diagnostic
		} else {
			want += o - 2
		}
		cs = append(cs, &ast.Comment{Value: "// @plugin: " + names[k]})
	}
	stmt := &ast.EsiStatement{Meta: &ast.Meta{Token: token.Token{Type: token.ESI, Literal: "esi", Line: 1, Position: 1}, Leading: cs}}
	l.customLint(stmt)
	nondet.Observe("diagnostics", len(l.Errors), want)
	nondet.Assert(len(l.Errors) == want, "a diagnostic returned by a lint plugin is lost (or duplicated)")
	for _, e := range l.Errors {
		nondet.Assert(e != nil, "a reported diagnostic is nil")
	}
	nondet.Cover("checked")
}
