package interpreter

//verif:pkg interpreter
//verif:intercept (*github.com/ysugimoto/falco/v2/interpreter.Interpreter).ProcessInit lkInit
//verif:intercept (*github.com/ysugimoto/falco/v2/interpreter.Interpreter).ProcessRecv lkRecv
//verif:intercept (*github.com/ysugimoto/falco/v2/interpreter.Interpreter).sendProcessResponse lkSend

import (
	"errors"
	ghttp "net/http"
	"sync"

	"github.com/ysugimoto/falco/v2/interpreter/context"
	ihttp "github.com/ysugimoto/falco/v2/interpreter/http"
	"github.com/ysugimoto/falco/v2/interpreter/process"
	"github.com/ysugimoto/falco/v2/zz_verif/nondet"
)

// C18-b: concurrent requests to one simulator are serialised by the request
// lock of the real ServeHTTP.  The per-request work is replaced by stubs that
// write the request's marker into the simulator's shared fields (context,
// process, a shared counter), read it back over several steps, and answer
// with what they read; under every interleaving within the preemption bound
// each response must carry only its own marker, the counter must end at the
// number of requests, and no data race may occur.  Request set-up fails for a
// symbolic subset of the requests: every request still gets a response (a
// request lock that is not released shows as a deadlock).

var lkShared int // stands for the state shared by all requests (cache, rate counters)

var lkInitFails map[string]bool // marker -> request set-up fails (include cycle, duplicated subroutine, too many backends ...)

func lkInit(i *Interpreter, r *ihttp.Request) error {
	if lkInitFails[r.Header.Get("X-Marker")] {
		return errors.New("request set-up failed")
	}
	i.ctx = context.New()
	i.process = process.New()
	i.ctx.Request = r
	i.ctx.OriginalHost = r.Header.Get("X-Marker")
	return nil
}

func lkRecv(i *Interpreter) error {
	m := i.ctx.OriginalHost
	n := lkShared
	i.ctx.FastlyError.Value = m
	lkShared = n + 1
	i.ctx.Response = ihttp.WrapResponse(&ghttp.Response{StatusCode: 200, Header: ghttp.Header{"X-Marker": []string{i.ctx.Request.Header.Get("X-Marker")}}})
	i.ctx.Restarts = len(m)
	return nil
}

func lkSend(i *Interpreter, w ghttp.ResponseWriter) {
	w.Header().Set("A", i.ctx.OriginalHost)
	w.Header().Set("B", i.ctx.FastlyError.Value)
	w.Header().Set("C", i.ctx.Response.Header.Get("X-Marker"))
	w.Header().Set("D", i.ctx.Request.Header.Get("X-Marker"))
	if i.process.Restarts == i.ctx.Restarts {
		w.Header().Set("E", "ok")
	}
	w.WriteHeader(200)
}

type lkWriter struct {
	h    ghttp.Header
	code int
}

func (w *lkWriter) Header() ghttp.Header        { return w.h }
func (w *lkWriter) Write(b []byte) (int, error) { return len(b), nil }
func (w *lkWriter) WriteHeader(c int)           { w.code = c }

func VerifRequestLock() {
	n := nondet.Param("R")
	i := New()
	lkShared = 0
	markers := []string{"m", "mm", "mmm"}
	ws := make([]*lkWriter, n)
	lkInitFails = map[string]bool{}
	fails := 0
	for k := 0; k < n; k++ {
		if nondet.Bool("initfail_" + markers[k]) {
			lkInitFails[markers[k]] = true
			fails++
		}
	}
	var wg sync.WaitGroup
	for k := 0; k < n; k++ {
		ws[k] = &lkWriter{h: ghttp.Header{}}
		wg.Add(1)
		go func(k int) {
			defer wg.Done()
			i.ServeHTTP(ws[k], &ghttp.Request{Method: "GET", Header: ghttp.Header{"X-Marker": []string{markers[k]}}})
		}(k)
	}
	wg.Wait()
	for k := 0; k < n; k++ {
		h := ws[k].h
		if lkInitFails[markers[k]] {
			nondet.Assert(ws[k].code >= 500, "a request whose set-up fails gets no error response")
			continue
		}
		nondet.Assert(ws[k].code == 200, "a request got no response")
		nondet.Assert(h.Get("A") == markers[k] && h.Get("B") == markers[k] && h.Get("C") == markers[k] && h.Get("D") == markers[k] && h.Get("E") == "ok",
			"a response carries state of another request: concurrent requests are not serialised")
	}
	nondet.Assert(lkShared == n-fails, "the shared state does not end at a value reachable by a one-at-a-time order")
	nondet.Cover("checked")
}
