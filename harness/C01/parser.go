package parser

//verif:pkg parser

import (
	"github.com/pkg/errors"
	"github.com/ysugimoto/falco/v2/lexer"
	"github.com/ysugimoto/falco/v2/token"
	"github.com/ysugimoto/falco/v2/zz_verif/nondet"
)

// C01-b: the parser over any token stream that satisfies the lexer contract.
// Each token is a (type, literal) pair drawn from the finite domain below by
// one symbolic index; the parser forks only where it compares.

var psTypes = []string{
	"IDENT", "INT", "STRING", "FLOAT", "RTIME", "COMMENT", "TRUE", "FALSE", "PERCENT", "LF",
	"EQUAL", "NOTEQUAL", "REGEX", "NOT_REGEX_MATCH", "GREATER_THAN", "LESS_THAN", "GREATER_THAN_EQUAL", "LESS_THAN_EQUAL", "AND", "OR",
	"ASSIGN", "ADDITION", "SUBTRACTION", "MULTIPLICATION", "DIVISION", "REMAINDER", "BITWISE_OR", "BITWISE_AND", "BITWISE_XOR", "LEFT_SHIFT", "RIGHT_SHIFT", "LEFT_ROTATE", "RIGHT_ROTATE", "LOGICAL_AND", "LOGICAL_OR",
	"LEFT_BRACE", "RIGHT_BRACE", "LEFT_PAREN", "RIGHT_PAREN", "LEFT_BRACKET", "RIGHT_BRACKET", "COMMA", "SLASH", "SEMICOLON", "DOT", "NOT", "COLON", "PLUS", "MINUS",
	"ACL", "DIRECTOR", "BACKEND", "TABLE", "SUBROUTINE", "ADD", "CALL", "DECLARE", "ERROR", "ESI", "INCLUDE", "IMPORT", "LOG", "REMOVE", "RESTART", "RETURN", "SET", "SYNTHETIC", "SYNTHETIC_BASE64", "UNSET",
	"IF", "ELSE", "ELSEIF", "ELSIF", "PENALTYBOX", "RATECOUNTER", "GOTO", "SWITCH", "CASE", "DEFAULT", "BREAK", "FALLTHROUGH", "PRAGMA", "FASTLY_CONTROL", "ILLEGAL",
	"IDENT", "IDENT", "INT", "INT", "STRING", "FLOAT", "IDENT",
}
var psLits = []string{
	"a", "1", "s", "1.5", "1s", "# c", "true", "false", "%", "\n",
	"==", "!=", "~", "!~", ">", "<", ">=", "<=", "&&", "||",
	"=", "+=", "-=", "*=", "/=", "%=", "|=", "&=", "^=", "<<=", ">>=", "rol=", "ror=", "&&=", "||=",
	"{", "}", "(", ")", "[", "]", ",", "/", ";", ".", "!", ":", "+", "-",
	"acl", "director", "backend", "table", "sub", "add", "call", "declare", "error", "esi", "include", "import", "log", "remove", "restart", "return", "set", "synthetic", "synthetic.base64", "unset",
	"if", "else", "elseif", "elsif", "penaltybox", "ratecounter", "goto", "switch", "case", "default", "break", "fallthrough", "pragma", "C!", "?",
	"local", "a:", "0x", "99999999999999999999", "%u{110000}", "1e", "STRING",
}
var psNames = []string{"t0", "t1", "t2", "t3", "t4", "t5", "t6", "t7", "t8", "t9"}

type psStream struct {
	i, n   int
	calls  int
	peeked *token.Token
}

func (t *psStream) next() token.Token {
	t.calls++
	nondet.Assert(t.calls <= 6*(t.n+3), "the parser asks for more than 6(K+3) tokens: it does not make progress")
	if t.i >= t.n {
		return token.Token{Type: token.EOF, Line: 1, Position: t.n + 1}
	}
	k := t.i
	t.i++
	ty, lit := nondet.EnumPair(psNames[k], psTypes, psLits)
	return token.Token{Type: token.TokenType(ty), Literal: lit, Line: 1, Position: k + 1, Offset: 2}
}

func (t *psStream) NextToken() token.Token {
	if t.peeked != nil {
		r := *t.peeked
		t.peeked = nil
		return r
	}
	return t.next()
}

func (t *psStream) PeekToken() token.Token {
	if t.peeked == nil {
		r := t.next()
		t.peeked = &r
	}
	return *t.peeked
}

func (t *psStream) RegisterCustomTokens(map[string]token.TokenType) {}

func psCheckErr(err error, maxPos int) {
	if err == nil {
		nondet.Cover("accepted")
		return
	}
	nondet.Cover("rejected")
	pe, ok := errors.Cause(err).(*ParseError)
	nondet.Assert(ok, "a parse error carries no location (it is not a ParseError)")
	if ok {
		nondet.Assert(pe.Token.Line >= 1 && pe.Token.Position >= 1, "the parse error's line or position is below 1")
		nondet.Assert(pe.Token.Line == 1 && pe.Token.Position <= maxPos, "the parse error's position lies outside the input")
	}
}

// VerifParseStream: for every stream of K tokens the parser returns a tree or
// a located parse error, asking for a bounded number of tokens (no loop), with
// no run-time fault.  MODE 0 = ParseVCL, 1 = ParseSnippetVCL, 2 = ParseVCLOrSnippet.
func VerifParseStream() {
	k := nondet.Param("K")
	p := New(&psStream{n: k})
	var err error
	switch nondet.Param("MODE") {
	case 0:
		_, err = p.ParseVCL()
	case 1:
		_, err = p.ParseSnippetVCL()
	default:
		_, err = p.ParseVCLOrSnippet()
	}
	psCheckErr(err, k+1)
}

// VerifParseBytes (C01-c): end to end on every byte string of N bytes: real
// lexer and real parser.  The error position must lie inside the input.
func VerifParseBytes() {
	n := nondet.Param("N")
	in := nondet.Bytes("b", n)
	p := New(lexer.NewFromString(string(in)))
	var err error
	if nondet.Param("MODE") == 0 {
		_, err = p.ParseVCL()
	} else {
		_, err = p.ParseSnippetVCL()
	}
	if err == nil {
		nondet.Cover("accepted")
		return
	}
	nondet.Cover("rejected")
	pe, ok := errors.Cause(err).(*ParseError)
	nondet.Assert(ok, "a parse error carries no location (it is not a ParseError)")
	if ok {
		lines := 1
		for _, c := range in {
			if c == '\n' {
				lines++
			}
		}
		nondet.Assert(pe.Token.Line >= 1 && pe.Token.Position >= 1, "the parse error's line or position is below 1")
		nondet.Assert(pe.Token.Line <= lines && pe.Token.Position <= n+1, "the parse error's position lies outside the input")
	}
}

var PsTemplates = []string{
	"pragma", "pragma foo", "sub a { pragma", "sub a {", "sub a { set x =", "sub a { if (", "acl a {", "backend b { .host =", "table t {", "director d random {",
	"sub a { call x(", "sub a { set x = (a)(b); }", "sub a { switch (x) { case", "sub a { return(", "sub a { error", "import", "include", "penaltybox p {", "sub a { goto", "sub a { x:",
	"sub a { set x = {\"a", "sub a { set x = \"a", "sub a { /* c", "sub a { synthetic", "sub a { declare local var.a", "sub a { set x = if(", "C!", "sub a { esi", "sub a { log", "sub a { unset",
}

// VerifParseTemplate: a truncated program followed by one arbitrary byte.
func VerifParseTemplate() {
	t := PsTemplates[nondet.Param("T")]
	in := append([]byte(t), nondet.Byte("x"))
	if nondet.Bool("sp") {
		in = append([]byte(t), ' ', nondet.Byte("x"))
	}
	p := New(lexer.NewFromString(string(in)))
	var err error
	if nondet.Param("MODE") == 0 {
		_, err = p.ParseVCL()
	} else {
		_, err = p.ParseSnippetVCL()
	}
	if err == nil {
		nondet.Cover("accepted")
		return
	}
	nondet.Cover("rejected")
	pe, ok := errors.Cause(err).(*ParseError)
	nondet.Assert(ok, "a parse error carries no location (it is not a ParseError)")
	if ok {
		nondet.Assert(pe.Token.Line >= 1 && pe.Token.Position >= 1, "the parse error's line or position is below 1")
		nondet.Assert(pe.Token.Line <= 2 && pe.Token.Position <= len(in)+1, "the parse error's position lies outside the input")
	}
}
