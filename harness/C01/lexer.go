package lexer

//verif:pkg lexer

import (
	"unicode/utf8"

	"github.com/ysugimoto/falco/v2/token"
	"github.com/ysugimoto/falco/v2/zz_verif/nondet"
)

// The lexer contract LC checked on every byte string (C01-a):
//  LC1 every token has one of the token types of token/token.go (never empty);
//  LC2 Line >= 1, Position >= 1 and (Line, Position) is the rune position,
//      inside the input or one past its end, at which the token's text starts;
//  LC3 an EOF token is reached within 3n+2 calls;
//  LC4 OPEN_LONG_STRING is followed by STRING (Offset >= 4) and CLOSE_LONG_STRING
//      with the same delimiter; a quoted STRING has Offset 2;
//  LC7 PeekToken returns what the next NextToken returns.

var lexKnownTypes = []token.TokenType{
	token.ILLEGAL, token.EOF, token.IDENT, token.INT, token.STRING, token.OPEN_LONG_STRING, token.CLOSE_LONG_STRING, token.FLOAT, token.RTIME,
	token.COMMENT, token.TRUE, token.FALSE, token.PERCENT, token.LF, token.EQUAL, token.NOT_EQUAL, token.REGEX_MATCH, token.NOT_REGEX_MATCH,
	token.GREATER_THAN, token.LESS_THAN, token.GREATER_THAN_EQUAL, token.LESS_THAN_EQUAL, token.AND, token.OR, token.ASSIGN, token.ADDITION,
	token.SUBTRACTION, token.MULTIPLICATION, token.DIVISION, token.REMAINDER, token.BITWISE_OR, token.BITWISE_AND, token.BITWISE_XOR,
	token.LEFT_SHIFT, token.RIGHT_SHIFT, token.LEFT_ROTATE, token.RIGHT_ROTATE, token.LOGICAL_AND, token.LOGICAL_OR, token.LEFT_BRACE,
	token.RIGHT_BRACE, token.LEFT_PAREN, token.RIGHT_PAREN, token.LEFT_BRACKET, token.RIGHT_BRACKET, token.COMMA, token.SLASH, token.SEMICOLON,
	token.DOT, token.NOT, token.COLON, token.PLUS, token.MINUS, token.ACL, token.DIRECTOR, token.BACKEND, token.TABLE, token.SUBROUTINE,
	token.ADD, token.CALL, token.DECLARE, token.ERROR, token.ESI, token.INCLUDE, token.IMPORT, token.LOG, token.REMOVE, token.RESTART,
	token.RETURN, token.SET, token.SYNTHETIC, token.SYNTHETIC_BASE64, token.UNSET, token.IF, token.ELSE, token.ELSEIF, token.ELSIF,
	token.PENALTYBOX, token.RATECOUNTER, token.GOTO, token.SWITCH, token.CASE, token.DEFAULT, token.BREAK, token.FALLTHROUGH,
	token.PRAGMA, token.FASTLY_CONTROL,
}

func lexKnown(t token.TokenType) bool {
	for _, k := range lexKnownTypes {
		if t == k {
			return true
		}
	}
	return false
}

// runePos lists, per rune of the input (decoded as the reader decodes it: an
// invalid byte is one rune), its line and column, plus the position one past the end.
type lexPos struct {
	line, col int
	r         rune
	off       int // byte offset
}

func lexPositions(in []byte) []lexPos {
	var ps []lexPos
	line, col := 1, 1
	for i := 0; i < len(in); {
		r, size := utf8.DecodeRune(in[i:])
		ps = append(ps, lexPos{line, col, r, i})
		if r == '\n' {
			line++
			col = 1
		} else {
			col++
		}
		i += size
	}
	ps = append(ps, lexPos{line, col, 0, len(in)})
	return ps
}

// lexFirstRune is the first rune of the text a token stands for.
func lexFirstRune(t token.Token) (rune, bool) {
	switch t.Type {
	case token.EOF:
		return 0, false
	case token.STRING:
		if t.Offset == 2 {
			return '"', true
		}
		return 0, false // body of a long string: starts after the opening delimiter
	case token.OPEN_LONG_STRING:
		return '{', true
	case token.CLOSE_LONG_STRING:
		return 0, false
	}
	if t.Literal == "" {
		return 0, false
	}
	r, _ := utf8.DecodeRuneInString(t.Literal)
	return r, true
}

// lexCommentAt is the text of the comment that starts at byte offset off: a
// line comment runs to the end of the line, a block comment to the first */
// after its opening /* (to the end of input when it is not closed).
func lexCommentAt(in []byte, off int) string {
	end := len(in)
	for j := off; j < len(in); j++ {
		if in[j] == 0 {
			end = j // a NUL byte ends the input for this lexer
			break
		}
	}
	if off+1 < end && in[off] == '/' && in[off+1] == '*' {
		for j := off + 2; j+1 < end; j++ {
			if in[j] == '*' && in[j+1] == '/' {
				return string(in[off : j+2])
			}
		}
		return string(in[off:end])
	}
	for j := off; j < end; j++ {
		if in[j] == '\n' {
			return string(in[off:j])
		}
	}
	return string(in[off:end])
}

func lexCheck(in []byte) {
	n := len(in)
	ps := lexPositions(in)
	l := NewFromString(string(in))
	var prev token.Token
	for k := 0; k < 3*n+2; k++ {
		pk := l.PeekToken()
		t := l.NextToken()
		nondet.Assert(pk.Type == t.Type && pk.Literal == t.Literal && pk.Line == t.Line && pk.Position == t.Position, "LC7: PeekToken differs from the following NextToken")
		nondet.Assert(lexKnown(t.Type), "LC1: token type is not one of the token types")
		nondet.Assert(t.Line >= 1 && t.Position >= 1, "LC2: token line or position below 1")
		// the position designates a rune of the input (or one past the end)
		found := false
		for _, p := range ps {
			if p.line == t.Line && p.col == t.Position {
				found = true
				if want, ok := lexFirstRune(t); ok {
					nondet.Assert(p.r == want, "LC2: the token's position does not designate the start of its text")
				}
				if t.Type == token.COMMENT {
					want := lexCommentAt(in, p.off)
					ascii := true
					for j := 0; j < len(want); j++ {
						if want[j] >= 0x80 {
							ascii = false // the lexer reads runes: bytes outside ASCII may be re-encoded in the literal
						}
					}
					if ascii {
						nondet.Assert(t.Literal == want, "LC8: a comment token does not extend exactly to the end of its comment (end of line, or the first */)")
					}
				}
			}
		}
		if (t.Type == token.EOF || t.Type == token.CLOSE_LONG_STRING) && len(ps) >= 2 {
			// end of input after a final line feed: the column after that line feed is accepted too
			// (CLOSE_LONG_STRING of an unterminated long string is synthesised at the end of input)
			last := ps[len(ps)-2]
			if t.Line == last.line && t.Position == last.col+1 {
				found = true
			}
		}
		nondet.Assert(found, "LC2: the token's position lies outside the input")
		if prev.Type == token.OPEN_LONG_STRING {
			nondet.Assert(t.Type == token.STRING && t.Offset >= 4, "LC4: OPEN_LONG_STRING is not followed by the long string body")
		}
		if t.Type == token.STRING && prev.Type != token.OPEN_LONG_STRING {
			nondet.Assert(t.Offset == 2, "LC4: quoted string without offset 2")
		}
		if t.Type == token.EOF {
			nondet.Cover("eof")
			return
		}
		prev = t
	}
	nondet.Fail("LC3: no EOF token within 3n+2 calls")
}

// VerifLexBytes: the contract holds for every byte string of length N.
func VerifLexBytes() {
	lexCheck(nondet.Bytes("b", nondet.Param("N")))
}

var LexTemplates = []string{
	"acl", "director", "backend", "table", "sub", "add", "call", "declare", "error", "esi", "include", "import", "log", "remove", "restart",
	"return", "set", "synthetic", "synthetic.base64", "unset", "if", "else", "elseif", "elsif", "penaltybox", "ratecounter", "goto", "switch",
	"case", "default", "break", "fallthrough", "pragma", "true", "false",
	"==", "!=", "~", "!~", ">", "<", ">=", "<=", "&&", "||", "=", "+=", "-=", "*=", "/=", "%=", "|=", "&=", "^=", "<<=", ">>=", "rol=", "ror=", "&&=", "||=",
	"{", "}", "(", ")", "[", "]", ",", "/", ";", ".", "!", ":", "+", "-", "%", "\n",
	"C!", "W!", "{\"x\"}", "{ab\"x\"ab}", "\"x\"", "\"a", "0x1.8p3", "0x1F", "10ms", "1.5s", "1e3", "12", "1.", "/* a */", "/* a", "# a", "// a", "/**/", "/***/", "/* a **/", "req.http.X-A:b", "a*",
}

// VerifLexTemplate: the contract holds for lexeme T with two arbitrary bytes
// placed before, around or after it, and for every proper prefix of T
// followed by one arbitrary byte.
func VerifLexTemplate() {
	t := []byte(LexTemplates[nondet.Param("T")])
	b1, b2 := nondet.Byte("b1"), nondet.Byte("b2")
	var in []byte
	switch nondet.Choice("shape", 4) {
	case 0:
		in = append(append([]byte{}, t...), b1, b2)
	case 1:
		in = append(append([]byte{b1}, t...), b2)
	case 2:
		in = append([]byte{b1, b2}, t...)
	default:
		cut := nondet.IntRange("cut", 0, len(t)-1)
		in = append(append([]byte{}, t[:cut]...), b1)
	}
	lexCheck(in)
}
