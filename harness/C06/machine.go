package interpreter

//verif:pkg interpreter
//verif:intercept (*github.com/ysugimoto/falco/v2/interpreter.Interpreter).createBackendRequest smBackendRequest
//verif:intercept (*github.com/ysugimoto/falco/v2/interpreter.Interpreter).sendBackendRequest smSendBackend2
//verif:intercept time.Now smNow
//verif:intercept (*github.com/ysugimoto/falco/v2/interpreter/http.Request).Clone smCloneRequest

import (
	gocontext "context"
	"io"
	ghttp "net/http"
	"net/url"
	"strings"
	"time"

	"github.com/ysugimoto/falco/v2/ast"
	"github.com/ysugimoto/falco/v2/interpreter/context"
	ihttp "github.com/ysugimoto/falco/v2/interpreter/http"
	"github.com/ysugimoto/falco/v2/interpreter/process"
	"github.com/ysugimoto/falco/v2/interpreter/value"
	"github.com/ysugimoto/falco/v2/token"
	"github.com/ysugimoto/falco/v2/zz_verif/nondet"
)

// C06: the request state machine.  All Process<Scope> methods, ProcessSubroutine,
// ProcessBlockStatement and the return / error / restart statements are real;
// every lifecycle subroutine's body is one statement chosen symbolically
// (return(<action>), error;, restart;, nothing), optionally guarded by
// `if (req.restarts == 0)`.  The backend is a stub: createBackendRequest and
// sendBackendRequest return canned objects (a cacheable 200 response).

func smBackendRequest(i *Interpreter, ctx *context.Context, b *value.Backend) (*ihttp.Request, error) {
	return ihttp.WrapRequest(&ghttp.Request{Method: "GET", Header: ghttp.Header{}, URL: &url.URL{Path: "/x"}}), nil
}


func smCloneRequest(r *ihttp.Request, c gocontext.Context) *ihttp.Request { return r }

var smScopes = []string{"recv", "hash", "hit", "miss", "pass", "fetch", "error", "deliver", "log"}

// what a subroutine does: return(<action>), or one of the pseudo actions
var smActions = []string{"", "lookup", "pass", "hash", "error", "restart", "deliver", "fetch", "deliver_stale", "hit_for_pass", "ERROR-STATEMENT", "RESTART-STATEMENT"}

func smm() *ast.Meta { return &ast.Meta{Token: token.Token{Line: 1, Position: 1}} }

func smBody(act string, cond bool) []ast.Statement {
	var st ast.Statement
	switch act {
	case "":
		return []ast.Statement{}
	case "ERROR-STATEMENT":
		st = &ast.ErrorStatement{Meta: smm(), Code: &ast.Integer{Meta: smm(), Value: 601}}
	case "RESTART-STATEMENT":
		st = &ast.RestartStatement{Meta: smm()}
	default:
		st = &ast.ReturnStatement{Meta: smm(), HasParenthesis: true, ReturnExpression: &ast.Ident{Meta: smm(), Value: act}}
	}
	if !cond {
		return []ast.Statement{st}
	}
	return []ast.Statement{&ast.IfStatement{Meta: smm(), Keyword: "if",
		Condition:   &ast.InfixExpression{Meta: smm(), Operator: "==", Left: &ast.Ident{Meta: smm(), Value: "req.restarts"}, Right: &ast.Integer{Meta: smm(), Value: 0}},
		Consequence: &ast.BlockStatement{Meta: smm(), Statements: []ast.Statement{st}}, Another: []*ast.IfStatement{}}}
}

// smNext is the reference automaton (table B.1 of DESIGN.md, from the property
// statement and the Fastly subroutine pages): the scopes that may follow
// `scope` when its subroutine did `act`; nil means "must end in a reported error".
// recvAct is what vcl_recv did on this pass (it decides what follows vcl_hash).
func smNext(scope, act, recvAct string, cacheHit bool) []string {
	afterHash := func() []string {
		if recvAct == "pass" {
			return []string{"pass"}
		}
		if cacheHit {
			return []string{"hit"}
		}
		return []string{"miss"}
	}
	switch scope {
	case "recv":
		switch act {
		case "", "lookup", "pass":
			return []string{"hash"}
		case "error", "ERROR-STATEMENT":
			return []string{"error"}
		case "restart", "RESTART-STATEMENT":
			return []string{"recv"}
		}
	case "hash":
		switch act {
		case "", "hash":
			return afterHash()
		}
	case "hit":
		switch act {
		case "", "deliver":
			return []string{"deliver"}
		case "pass":
			return []string{"pass"}
		case "error", "ERROR-STATEMENT":
			return []string{"error"}
		case "restart", "RESTART-STATEMENT":
			return []string{"recv"}
		}
	case "miss":
		switch act {
		case "", "fetch":
			return []string{"fetch"}
		case "deliver_stale":
			return []string{"deliver", "END-WITH-ERROR"} // there is no stale object on a plain miss: a reported error is accepted
		case "pass":
			return []string{"pass"}
		case "error", "ERROR-STATEMENT":
			return []string{"error"}
		}
	case "pass":
		switch act {
		case "", "pass":
			return []string{"fetch"}
		case "error", "ERROR-STATEMENT":
			return []string{"error"}
		}
	case "fetch":
		switch act {
		case "", "deliver", "deliver_stale", "pass", "hit_for_pass":
			return []string{"deliver"}
		case "error", "ERROR-STATEMENT":
			return []string{"error"}
		case "restart", "RESTART-STATEMENT":
			return []string{"recv"}
		}
	case "error":
		switch act {
		case "", "deliver", "deliver_stale":
			return []string{"deliver"}
		case "restart", "RESTART-STATEMENT":
			return []string{"recv"}
		}
	case "deliver":
		switch act {
		case "", "deliver":
			return []string{"log"}
		case "restart", "RESTART-STATEMENT":
			return []string{"recv"}
		}
	case "log":
		return []string{"END", "END-WITH-ERROR"} // the last state: whatever vcl_log returns the request is over; statements that are not allowed there are reported
	}
	return nil
}

func smContains(l []string, s string) bool {
	for _, x := range l {
		if x == s {
			return true
		}
	}
	return false
}

func smNew() *Interpreter {
	i := New()
	i.ctx = context.New()
	i.process = process.New()
	i.ctx.Request = ihttp.WrapRequest(&ghttp.Request{Method: "GET", Header: ghttp.Header{}, URL: &url.URL{Path: "/x"}})
	i.ctx.Backend = &value.Backend{Value: &ast.BackendDeclaration{Meta: smm(), Name: &ast.Ident{Meta: smm(), Value: "b"}}}
	return i
}

// VerifMachine: the symbolic scopes (bit mask SCOPES over smScopes) get a
// symbolic action each; the others have an empty body.
func VerifMachine() {
	i := smNew()
	mask := nondet.Param("SCOPES")
	acts := map[string]string{}
	conds := map[string]bool{}
	for k, s := range smScopes {
		act, cond := "", false
		if mask&(1<<uint(k)) != 0 {
			act = nondet.Enum("act_"+s, smActions)
			cond = nondet.Bool("cond_" + s)
		}
		acts[s], conds[s] = act, cond
		i.ctx.Subroutines["vcl_"+s] = &ast.SubroutineDeclaration{Meta: smm(), Name: &ast.Ident{Meta: smm(), Value: "vcl_" + s},
			Block: &ast.BlockStatement{Meta: smm(), Statements: smBody(act, cond)}}
	}
	err := i.ProcessRecv()
	var tr []string
	for _, f := range i.process.Flows {
		tr = append(tr, strings.TrimPrefix(f.Subroutine, "vcl_"))
	}
	nondet.Observe("trace", strings.Join(tr, ">"), err != nil, i.ctx.Restarts)

	nondet.Assert(len(tr) > 0 && tr[0] == "recv", "a request does not start in vcl_recv")
	nondet.Assert(i.ctx.Restarts <= 3, "more than three restarts")
	// walk the trace along the reference automaton
	restarts := 0
	recvAct := ""
	documented := true
	stored := false
	for k := 0; k < len(tr); k++ {
		s := tr[k]
		act := acts[s]
		if conds[s] && restarts > 0 {
			act = ""
		}
		if s == "recv" {
			recvAct = act
		}
		if s == "fetch" {
			stored = true // the stub backend's response is cacheable: a later lookup of this request (after a restart) hits it
		}
		next := smNext(s, act, recvAct, stored) // a fresh simulator has an empty cache: no hit before something was fetched
		if next == nil {
			documented = false
			nondet.Assert(k == len(tr)-1 && err != nil, "an action outside the state machine does not end the request in a reported error")
			break
		}
		if smContains(next, "recv") {
			restarts++
			if restarts > 3 {
				nondet.Assert(k == len(tr)-1 && err != nil, "a fourth restart is not refused")
				documented = false
				break
			}
		}
		if k == len(tr)-1 {
			if err == nil {
				nondet.Assert(smContains(next, "END"), "the request ends without error before the state machine is finished")
			} else if !smContains(next, "END-WITH-ERROR") {
				documented = false // error raised for another reason; checked below
				nondet.Assert(false, "a documented transition ends in an error")
			}
		} else {
			nondet.Assert(smContains(next, tr[k+1]), "the successor of vcl_"+s+" is not the one the state machine prescribes")
		}
	}
	if err == nil {
		n := 0
		for _, s := range tr {
			if s == "log" {
				n++
			}
		}
		nondet.Assert(n == 1 && tr[len(tr)-1] == "log", "a request that ends without error does not run vcl_log last and exactly once")
		nondet.Assert(documented, "an undocumented path ends without error")
		nondet.Cover("completed")
	} else {
		nondet.Cover("error-reported")
	}
	nondet.Assert(restarts == i.ctx.Restarts || !documented, "the restart count does not match the number of re-entries of vcl_recv")
}

// ---- C06-c: state that outlives a request (the cache)

var smRespKind int // what the stub backend answers for the current request

func smSendBackend2(i *Interpreter, b *value.Backend) (*ihttp.Response, error) {
	h := ghttp.Header{}
	status := 200
	switch smRespKind {
	case 0:
		h.Set("Cache-Control", "max-age=60")
	case 1:
		h.Set("Cache-Control", "max-age=0")
	case 2: // no freshness information: the default TTL (two minutes) applies
	default:
		status = 500 // not cacheable
	}
	return ihttp.WrapResponse(&ghttp.Response{StatusCode: status, Header: h, Body: io.NopCloser(strings.NewReader("OK"))}), nil
}

// VerifCache: R requests to one simulator with symbolic URLs, recv actions,
// backend freshness and clock advances.  A lookup takes the hit branch exactly
// when an unexpired object is stored under the request's hash; the cached flag
// and X-Cache say which branch was taken; the first request never hits.
func VerifCache() {
	i := New()
	urls := []string{"/a", "/b"}
	type entry struct {
		stored  bool
		expires int64 // seconds on the harness clock
	}
	ref := map[string]*entry{"/a": {}, "/b": {}}
	var clock int64
	names := []string{"r0", "r1", "r2", "r3", "r4"}
	for k := 0; k < nondet.Param("R"); k++ {
		n := names[k]
		slim := nondet.Param("SLIM") == 1 // longer histories over a reduced alphabet
		if k > 0 {
			if slim {
				clock += []int64{0, 90}[nondet.Choice(n+"_wait", 2)]
			} else {
				clock += []int64{0, 30, 90, 200}[nondet.Choice(n+"_wait", 4)]
			}
		}
		smClock = clock
		u := urls[nondet.Choice(n+"_url", 2)]
		pass := false
		if slim {
			smRespKind = []int{0, 2}[nondet.Choice(n+"_resp", 2)]
		} else {
			pass = nondet.Bool(n + "_pass")
			smRespKind = nondet.Choice(n+"_resp", 4)
		}
		// what ProcessInit does per request
		i.ctx = context.New()
		i.process = process.New()
		i.ctx.Request = ihttp.WrapRequest(&ghttp.Request{Method: "GET", Header: ghttp.Header{}, URL: &url.URL{Path: u}})
		i.ctx.Backend = &value.Backend{Value: &ast.BackendDeclaration{Meta: smm(), Name: &ast.Ident{Meta: smm(), Value: "b"}}}
		act := "lookup"
		if pass {
			act = "pass"
		}
		for _, s := range smScopes {
			a := ""
			if s == "recv" {
				a = act
			}
			i.ctx.Subroutines["vcl_"+s] = &ast.SubroutineDeclaration{Meta: smm(), Name: &ast.Ident{Meta: smm(), Value: "vcl_" + s}, Block: &ast.BlockStatement{Meta: smm(), Statements: smBody(a, false)}}
		}
		err := i.ProcessRecv()
		nondet.Assert(err == nil, "a plain lookup / pass request fails")
		if err != nil {
			return
		}
		e := ref[u]
		wantHit := !pass && e.stored && clock <= e.expires
		sawHit, sawFetch := false, false
		for _, f := range i.process.Flows {
			if f.Subroutine == "vcl_hit" {
				sawHit = true
			}
			if f.Subroutine == "vcl_fetch" {
				sawFetch = true
			}
		}
		nondet.Observe("request", k, sawHit, i.process.Cached)
		if k == 0 {
			nondet.Assert(!sawHit, "the first request to a fresh simulator takes the hit branch")
		}
		nondet.Assert(sawHit == wantHit, "the hit branch is not taken exactly when an unexpired object is stored under the request's hash")
		nondet.Assert(i.process.Cached == sawHit, "the cached flag of the report does not say which branch was taken")
		xc := ""
		if i.ctx.Response != nil {
			xc = i.ctx.Response.Header.Get("X-Cache")
		}
		if sawHit {
			nondet.Assert(xc == "HIT", "X-Cache is not HIT on the hit branch")
		} else {
			nondet.Assert(xc == "MISS", "X-Cache is not MISS on the miss / pass branch")
		}
		if sawFetch {
			switch smRespKind {
			case 0:
				e.stored, e.expires = true, clock+60
			case 2:
				e.stored, e.expires = true, clock+120
			}
		}
	}
	nondet.Cover("checked")
}

var smClock int64

// smNow is the simulator's clock: 2026-01-01T00:00:00Z plus smClock seconds.
func smNow() time.Time { return time.Unix(1767225600+smClock, 0).UTC() }
