// Copyright 2013 The Go Authors. All rights reserved.
// Use of this source code is governed by a BSD-style
// license that can be found in the LICENSE file.

// Package ssa/interp defines an interpreter for the SSA
// representation of Go programs.
//
// This interpreter is provided as an adjunct for testing the SSA
// construction algorithm.  Its purpose is to provide a minimal
// metacircular implementation of the dynamic semantics of each SSA
// instruction.  It is not, and will never be, a production-quality Go
// interpreter.
//
// The following is a partial list of Go features that are currently
// unsupported or incomplete in the interpreter.
//
// * Unsafe operations, including all uses of unsafe.Pointer, are
// impossible to support given the "boxed" value representation we
// have chosen.
//
// * The reflect package is only partially implemented.
//
// * The "testing" package is no longer supported because it
// depends on low-level details that change too often.
//
// * "sync/atomic" operations are not atomic due to the "boxed" value
// representation: it is not possible to read, modify and write an
// interface value atomically. As a consequence, Mutexes are currently
// broken.
//
// * recover is only partially implemented.  Also, the interpreter
// makes no attempt to distinguish target panics from interpreter
// crashes.
//
// * the sizes of the int, uint and uintptr types in the target
// program are assumed to be the same as those of the interpreter
// itself.
//
// * all values occupy space, even those of types defined by the spec
// to have zero size, e.g. struct{}.  This can cause asymptotic
// performance degradation.
//
// * os.Exit is implemented using panic, causing deferred functions to
// run.
package interp // import "golang.org/x/tools/go/ssa/interp"

import (
	"runtime/debug"
	"strings"
	"fmt"
	"go/token"
	"go/types"
	"os"
	"slices"
	_ "unsafe"

	"golang.org/x/tools/go/ssa"
)

var CallStack []*ssa.Function

// Intercepts maps an SSA function name to the harness function that replaces it.
var Intercepts = map[string]*ssa.Function{}

var maxCallDepth = 600

// firstHostStack keeps the host stack of the first unexpected (engine) panic of a run.
var firstHostStack string

func noteHostPanic(r any) {
	if firstHostStack != "" {
		return
	}
	switch r.(type) {
	case abortPath, assertFail, targetPanic, targetRuntimeError:
		return
	}
	st := string(debug.Stack())
	// drop the frames of the panic machinery itself
	if i := strings.Index(st, "panic("); i >= 0 {
		st = st[i:]
	}
	if len(st) > 3000 {
		st = st[:3000]
	}
	firstHostStack = st
}

var stdSizes = &types.StdSizes{WordSize: 8, MaxAlign: 8}

// isControl reports whether a host panic value is engine control flow (never
// visible to the target's defer/recover machinery).
func isControl(p any) bool {
	switch p.(type) {
	case abortPath, assertFail:
		return true
	case targetPanic, targetRuntimeError:
		return false
	}
	return true // engine errors (host runtime errors, string panics) are not target panics
}

func derefNil(p value) *value {
	a, ok := p.(*value)
	if !ok {
		panic(fmt.Sprintf("pointer expected, got %T", p))
	}
	if a == nil {
		rtpanic("invalid memory address or nil pointer dereference")
	}
	return a
}

// index evaluates a possibly symbolic index against length n (target fault if out of range).
func checkIndex(idx value, n int) int {
	if si, ok := idx.(Sym); ok {
		inb := fmt.Sprintf("(bvult %s %s)", resize(si, 64, si.Signed).T, bv(uint64(n), 64))
		if !X.Decide(inb) {
			rtpanic("index out of range [symbolic] with length %d", n)
		}
		return -1
	}
	k := asInt64(idx)
	if k < 0 || k >= int64(n) {
		rtpanic("index out of range [%d] with length %d", k, n)
	}
	return int(k)
}

type continuation int

const (
	kNext continuation = iota
	kReturn
	kJump
)

// Mode is a bitmask of options affecting the interpreter.
type Mode uint

const (
	DisableRecover Mode = 1 << iota // Disable recover() in target programs; show interpreter crash instead.
	EnableTracing                   // Print a trace of all instructions as they are interpreted.
)

type methodSet map[string]*ssa.Function

// State shared between all interpreted goroutines.
type interpreter struct {
	osArgs             []value                // the value of os.Args
	prog               *ssa.Program           // the SSA program
	globals            map[*ssa.Global]*value // addresses of global variables (immutable)
	mode               Mode                   // interpreter options
	runtimeErrorString types.Type             // the runtime.errorString type (iff "runtime" is present)
	sizes              types.Sizes            // the effective type-sizing function
	goroutines         int32                  // atomically updated
	inited             map[*ssa.Package]bool
	interpret          func(pkgPath string) bool
}

type deferred struct {
	fn    value
	args  []value
	instr *ssa.Defer
	tail  *deferred
}

type frame struct {
	i                *interpreter
	caller           *frame
	fn               *ssa.Function
	block, prevBlock *ssa.BasicBlock
	env              map[ssa.Value]value // dynamic values of SSA variables
	locals           []value
	defers           *deferred
	result           value
	panicking        bool
	panic            any
	phitemps         []value // temporaries for parallel phi assignment
}

func (fr *frame) get(key ssa.Value) value {
	switch key := key.(type) {
	case nil:
		// Hack; simplifies handling of optional attributes
		// such as ssa.Slice.{Low,High}.
		return nil
	case *ssa.Function, *ssa.Builtin:
		return key
	case *ssa.Const:
		return constValue(key)
	case *ssa.Global:
		lazyInit(fr, key)
		return globalCell(fr.i, key)
	}
	if r, ok := fr.env[key]; ok {
		return r
	}
	panic(fmt.Sprintf("get: no value for %T: %v", key, key.Name()))
}

// runDefer runs a deferred call d.
// It always returns normally, but may set or clear fr.panic.
func (fr *frame) runDefer(d *deferred) {
	if fr.i.mode&EnableTracing != 0 {
		fmt.Fprintf(os.Stderr, "%s: invoking deferred function call\n",
			fr.i.prog.Fset.Position(d.instr.Pos()))
	}
	var ok bool
	defer func() {
		if !ok {
			// Deferred call created a new state of panic.
			p := recover()
			if isControl(p) {
				panic(p)
			}
			fr.panicking = true
			fr.panic = p
		}
	}()
	call(fr.i, fr, d.instr.Pos(), d.fn, d.args)
	ok = true
}

// runDefers executes fr's deferred function calls in LIFO order.
//
// On entry, fr.panicking indicates a state of panic; if
// true, fr.panic contains the panic value.
//
// On completion, if a deferred call started a panic, or if no
// deferred call recovered from a previous state of panic, then
// runDefers itself panics after the last deferred call has run.
//
// If there was no initial state of panic, or it was recovered from,
// runDefers returns normally.
func (fr *frame) runDefers() {
	for d := fr.defers; d != nil; d = d.tail {
		fr.runDefer(d)
	}
	fr.defers = nil
	if fr.panicking {
		panic(fr.panic) // new panic, or still panicking
	}
}

// lookupMethod returns the method set for type typ, which may be one
// of the interpreter's fake types.
func lookupMethod(i *interpreter, typ types.Type, meth *types.Func) *ssa.Function {
	return i.prog.LookupMethod(typ, meth.Pkg(), meth.Name())
}

// visitInstr interprets a single ssa.Instruction within the activation
// record frame.  It returns a continuation value indicating where to
// read the next instruction from.
func visitInstr(fr *frame, instr ssa.Instruction) continuation {
	switch instr := instr.(type) {
	case *ssa.DebugRef:
		// no-op

	case *ssa.UnOp:
		if instr.Op == token.MUL {
			p := derefNil(fr.get(instr.X))
			yieldPoint(fr, p, false)
			fr.env[instr] = load(mustDeref(instr.X.Type()), p)
		} else {
			fr.env[instr] = unop(instr, fr.get(instr.X))
		}

	case *ssa.BinOp:
		fr.env[instr] = binop(instr.Op, instr.X.Type(), fr.get(instr.X), fr.get(instr.Y))

	case *ssa.Call:
		fn, args := prepareCall(fr, &instr.Call)
		fr.env[instr] = call(fr.i, fr, instr.Pos(), fn, args)

	case *ssa.ChangeInterface:
		fr.env[instr] = fr.get(instr.X)

	case *ssa.ChangeType:
		fr.env[instr] = fr.get(instr.X) // (can't fail)

	case *ssa.Convert:
		fr.env[instr] = conv(instr.Type(), instr.X.Type(), fr.get(instr.X))

	case *ssa.MultiConvert:
		fr.env[instr] = conv(instr.Type(), instr.X.Type(), fr.get(instr.X))

	case *ssa.SliceToArrayPointer:
		fr.env[instr] = sliceToArrayPointer(instr.Type(), instr.X.Type(), fr.get(instr.X))

	case *ssa.MakeInterface:
		fr.env[instr] = iface{t: instr.X.Type(), v: fr.get(instr.X)}

	case *ssa.Extract:
		fr.env[instr] = fr.get(instr.Tuple).(tuple)[instr.Index]

	case *ssa.Slice:
		fr.env[instr] = slice(fr.get(instr.X), fr.get(instr.Low), fr.get(instr.High), fr.get(instr.Max))

	case *ssa.Return:
		switch len(instr.Results) {
		case 0:
		case 1:
			fr.result = fr.get(instr.Results[0])
		default:
			var res []value
			for _, r := range instr.Results {
				res = append(res, fr.get(r))
			}
			fr.result = tuple(res)
		}
		fr.block = nil
		return kReturn

	case *ssa.RunDefers:
		fr.runDefers()

	case *ssa.Panic:
		panic(targetPanic{fr.get(instr.X)})

	case *ssa.Send:
		chanSend(fr, fr.get(instr.Chan), fr.get(instr.X))

	case *ssa.Store:
		p := derefNil(fr.get(instr.Addr))
		yieldPoint(fr, p, true)
		store(mustDeref(instr.Addr.Type()), p, fr.get(instr.Val))

	case *ssa.If:
		succ := 1
		if decideCond(fr.get(instr.Cond)) {
			succ = 0
		}
		fr.prevBlock, fr.block = fr.block, fr.block.Succs[succ]
		return kJump

	case *ssa.Jump:
		fr.prevBlock, fr.block = fr.block, fr.block.Succs[0]
		return kJump

	case *ssa.Defer:
		fn, args := prepareCall(fr, &instr.Call)
		defers := &fr.defers
		if into := fr.get(instr.DeferStack); into != nil {
			defers = into.(**deferred)
		}
		*defers = &deferred{
			fn:    fn,
			args:  args,
			instr: instr,
			tail:  *defers,
		}

	case *ssa.Go:
		fn, args := prepareCall(fr, &instr.Call)
		spawn(fr, instr.Pos(), fn, args)

	case *ssa.MakeChan:
		fr.env[instr] = newChan(int(asInt64(fr.get(instr.Size))), instr.Type().Underlying().(*types.Chan).Elem())

	case *ssa.Alloc:
		var addr *value
		if instr.Heap {
			// new
			addr = new(value)
			fr.env[instr] = addr
		} else {
			// local
			addr = fr.env[instr].(*value)
		}
		*addr = zero(mustDeref(instr.Type()))

	case *ssa.MakeSlice:
		c, l := concInt(fr.get(instr.Cap)), concInt(fr.get(instr.Len))
		if l < 0 || l > c {
			rtpanic("makeslice: len out of range")
		}
		if c > 1<<24 {
			unsupported("makeslice of %d elements", c)
		}
		slice := make([]value, c)
		tElt := instr.Type().Underlying().(*types.Slice).Elem()
		z := zero(tElt)
		_, agg := z.(structure)
		_, agg2 := z.(array)
		for i := range slice {
			if agg || agg2 {
				slice[i] = zero(tElt)
			} else {
				slice[i] = z
			}
		}
		fr.env[instr] = slice[:l]

	case *ssa.MakeMap:
		var reserve int64
		if instr.Reserve != nil {
			reserve = asInt64(fr.get(instr.Reserve))
		}
		if !fitsInt(reserve, fr.i.sizes) {
			panic(fmt.Sprintf("ssa.MakeMap.Reserve value %d does not fit in int", reserve))
		}
		fr.env[instr] = makeMap(instr.Type().Underlying().(*types.Map).Key(), reserve)

	case *ssa.Range:
		fr.env[instr] = rangeIter(fr.get(instr.X))

	case *ssa.Next:
		fr.env[instr] = fr.get(instr.Iter).(iter).next()

	case *ssa.FieldAddr:
		fr.env[instr] = &(*derefNil(fr.get(instr.X))).(structure)[instr.Field]

	case *ssa.Field:
		fr.env[instr] = fr.get(instr.X).(structure)[instr.Field]

	case *ssa.IndexAddr:
		x := fr.get(instr.X)
		idx := fr.get(instr.Index)
		var elems []value
		switch x := x.(type) {
		case []value:
			elems = x
		case *value: // *array
			elems = []value((*derefNil(x)).(array))
		default:
			panic(fmt.Sprintf("unexpected x type in IndexAddr: %T", x))
		}
		k := checkIndex(idx, len(elems))
		if k < 0 {
			if indexAddrIsLoadOnly(instr) {
				if v, ok := selectTerm(idx.(Sym), elems); ok {
					cell := v
					fr.env[instr] = &cell
					break
				}
			}
			k = concretizeIndex(idx.(Sym), elems, indexAddrIsLoadOnly(instr))
		}
		fr.env[instr] = &elems[k]

	case *ssa.Index:
		x := deEnum(fr.get(instr.X))
		idx := fr.get(instr.Index)

		switch x := x.(type) {
		case array:
			k := checkIndex(idx, len(x))
			if k < 0 {
				if v, ok := selectTerm(idx.(Sym), []value(x)); ok {
					fr.env[instr] = v
					break
				}
				k = concretizeIndex(idx.(Sym), []value(x), true)
			}
			fr.env[instr] = x[k]
		case string:
			k := checkIndex(idx, len(x))
			if k < 0 {
				k = concretizeIndex(idx.(Sym), []value(toSymstr(x)), true)
			}
			fr.env[instr] = x[k]
		case symstr:
			k := checkIndex(idx, len(x))
			if k < 0 {
				k = concretizeIndex(idx.(Sym), []value(x), true)
			}
			fr.env[instr] = x[k]
		default:
			panic(fmt.Sprintf("unexpected x type in Index: %T", x))
		}

	case *ssa.Lookup:
		fr.env[instr] = lookup(instr, fr.get(instr.X), fr.get(instr.Index))

	case *ssa.MapUpdate:
		m := fr.get(instr.Map)
		key := fr.get(instr.Key)
		v := fr.get(instr.Value)
		switch m := m.(type) {
		case *omap:
			m.set(key, v)
		default:
			panic(fmt.Sprintf("illegal map type: %T", m))
		}

	case *ssa.TypeAssert:
		fr.env[instr] = typeAssert(instr, fr.get(instr.X).(iface))

	case *ssa.MakeClosure:
		var bindings []value
		for _, binding := range instr.Bindings {
			bindings = append(bindings, fr.get(binding))
		}
		fr.env[instr] = &closure{instr.Fn.(*ssa.Function), bindings}

	case *ssa.Phi:
		panic("unreachable: phis are processed at block entry")

	case *ssa.Select:
		fr.env[instr] = chanSelect(fr, instr)

	default:
		panic(fmt.Sprintf("unexpected instruction: %T", instr))
	}

	// if val, ok := instr.(ssa.Value); ok {
	// 	fmt.Println(toString(fr.env[val])) // debugging
	// }

	return kNext
}

// prepareCall determines the function value and argument values for a
// function call in a Call, Go or Defer instruction, performing
// interface method lookup if needed.
func prepareCall(fr *frame, call *ssa.CallCommon) (fn value, args []value) {
	v := fr.get(call.Value)
	if call.Method == nil {
		// Function call.
		fn = v
	} else {
		// Interface method invocation.
		recv := v.(iface)
		if recv.t == nil {
			rtpanic("invalid memory address or nil pointer dereference (method %s invoked on nil interface)", call.Method.Name())
		}
		if f := lookupMethod(fr.i, recv.t, call.Method); f == nil {
			// Unreachable in well-typed programs.
			panic(fmt.Sprintf("method set for dynamic type %v does not contain %s", recv.t, call.Method))
		} else {
			fn = f
		}
		args = append(args, recv.v)
	}
	for _, arg := range call.Args {
		args = append(args, fr.get(arg))
	}
	return
}

// call interprets a call to a function (function, builtin or closure)
// fn with arguments args, returning its result.
// callpos is the position of the callsite.
func call(i *interpreter, caller *frame, callpos token.Pos, fn value, args []value) value {
	switch fn := fn.(type) {
	case *ssa.Function:
		if fn == nil {
			panic("call of nil function") // nil of func type
		}
		return callSSA(i, caller, callpos, fn, args, nil)
	case *closure:
		return callSSA(i, caller, callpos, fn.Fn, args, fn.Env)
	case *ssa.Builtin:
		return callBuiltin(caller, fn, args)
	}
	panic(fmt.Sprintf("cannot call %T", fn))
}

func loc(fset *token.FileSet, pos token.Pos) string {
	if pos == token.NoPos {
		return ""
	}
	return " at " + fset.Position(pos).String()
}

// callSSA interprets a call to function fn with arguments args,
// and lexical environment env, returning its result.
// callpos is the position of the callsite.
func callSSA(i *interpreter, caller *frame, callpos token.Pos, fn *ssa.Function, args []value, env []value) value {
	if i.mode&EnableTracing != 0 {
		fset := fn.Prog.Fset
		// TODO(adonovan): fix: loc() lies for external functions.
		fmt.Fprintf(os.Stderr, "Entering %s%s.\n", fn, loc(fset, fn.Pos()))
		suffix := ""
		if caller != nil {
			suffix = ", resuming " + caller.fn.String() + loc(fset, callpos)
		}
		defer fmt.Fprintf(os.Stderr, "Leaving %s%s.\n", fn, suffix)
	}
	fr := &frame{
		i:      i,
		caller: caller, // for panic/recover
		fn:     fn,
	}
	CallStack = append(CallStack, fn)
	if len(CallStack) > maxCallDepth {
		panic(abortPath{KFuel, fmt.Sprintf("call depth exceeds %d", maxCallDepth)})
	}
	defer func() {
		if r := recover(); r != nil {
			noteHostPanic(r)
			panic(r) // keep CallStack as it was at the fault
		}
		CallStack = CallStack[:len(CallStack)-1]
	}()
	if hf, ok := Intercepts[fn.String()]; ok && hf != fn {
		X.Intercepted[fn.String()]++
		return callSSA(i, caller, callpos, hf, args, nil)
	}
	if fn.Parent() == nil {
		name := fn.String()
		ext := externals[name]
		if ext == nil {
			if k := strings.IndexByte(name, '['); k > 0 {
				ext = externals[name[:k]] // model of a generic function, for every instantiation
			}
		}
		if ext != nil {
			X.ExtCalls[name]++
			if !strings.Contains(name, "zz_verif") && !enumAware[name] {
				for k := range args {
					args[k] = deEnum(args[k])
				}
			}
			return ext(fr, args)
		}
		if fn.Name() == "init" && fn.Pkg != nil && (!i.interpret(fn.Pkg.Pkg.Path()) || skipInit[fn.Pkg.Pkg.Path()]) {
			return nil // initialisers of packages outside the interpreted set are not run
		}
		if fn.Blocks == nil {
			unsupported("no Go body and no model for %s", name)
		}
		if fn.Pkg != nil && !i.interpret(fn.Pkg.Pkg.Path()) {
			unsupported("call of %s: package is outside the interpreted set and has no model", name)
		}
	}
	X.FuncCalls[fn.String()]++

	// generic function body?
	if fn.TypeParams().Len() > 0 && len(fn.TypeArgs()) == 0 {
		panic("interp requires ssa.BuilderMode to include InstantiateGenerics to execute generics")
	}

	fr.env = make(map[ssa.Value]value)
	fr.block = fn.Blocks[0]
	fr.locals = make([]value, len(fn.Locals))
	for i, l := range fn.Locals {
		fr.locals[i] = zero(mustDeref(l.Type()))
		fr.env[l] = &fr.locals[i]
	}
	for i, p := range fn.Params {
		fr.env[p] = args[i]
	}
	for i, fv := range fn.FreeVars {
		fr.env[fv] = env[i]
	}
	for fr.block != nil {
		runFrame(fr)
	}
	// Destroy the locals to avoid accidental use after return.
	for i := range fn.Locals {
		fr.locals[i] = bad{}
	}
	return fr.result
}

// runFrame executes SSA instructions starting at fr.block and
// continuing until a return, a panic, or a recovered panic.
//
// After a panic, runFrame panics.
//
// After a normal return, fr.result contains the result of the call
// and fr.block is nil.
//
// A recovered panic in a function without named return parameters
// (NRPs) becomes a normal return of the zero value of the function's
// result type.
//
// After a recovered panic in a function with NRPs, fr.result is
// undefined and fr.block contains the block at which to resume
// control.
func runFrame(fr *frame) {
	defer func() {
		if fr.block == nil {
			return // normal return
		}
		if fr.i.mode&DisableRecover != 0 {
			return // let interpreter crash
		}
		p := recover()
		if isControl(p) {
			panic(p) // engine control flow: target defers do not run
		}
		fr.panicking = true
		fr.panic = p
		fr.runDefers()
		fr.block = fr.fn.Recover
	}()

	for {
		if fr.i.mode&EnableTracing != 0 {
			fmt.Fprintf(os.Stderr, ".%s:\n", fr.block)
		}

		nonPhis := executePhis(fr)
		for _, instr := range nonPhis {
			if fr.i.mode&EnableTracing != 0 {
				if v, ok := instr.(ssa.Value); ok {
					fmt.Fprintln(os.Stderr, "\t", v.Name(), "=", instr)
				} else {
					fmt.Fprintln(os.Stderr, "\t", instr)
				}
			}
			tick()
			if visitInstr(fr, instr) == kReturn {
				return
			}
			// Inv: kNext (continue) or kJump (last instr)
		}
	}
}

// executePhis executes the phi-nodes at the start of the current
// block and returns the non-phi instructions.
func executePhis(fr *frame) []ssa.Instruction {
	firstNonPhi := -1
	for i, instr := range fr.block.Instrs {
		if _, ok := instr.(*ssa.Phi); !ok {
			firstNonPhi = i
			break
		}
	}
	// Inv: 0 <= firstNonPhi; every block contains a non-phi.

	nonPhis := fr.block.Instrs[firstNonPhi:]
	if firstNonPhi > 0 {
		phis := fr.block.Instrs[:firstNonPhi]
		// Execute parallel assignment of phis.
		//
		// See "the swap problem" in Briggs et al's "Practical Improvements
		// to the Construction and Destruction of SSA Form" for discussion.
		predIndex := slices.Index(fr.block.Preds, fr.prevBlock)
		fr.phitemps = fr.phitemps[:0]
		for _, phi := range phis {
			phi := phi.(*ssa.Phi)
			if fr.i.mode&EnableTracing != 0 {
				fmt.Fprintln(os.Stderr, "\t", phi.Name(), "=", phi)
			}
			fr.phitemps = append(fr.phitemps, fr.get(phi.Edges[predIndex]))
		}
		for i, phi := range phis {
			fr.env[phi.(*ssa.Phi)] = fr.phitemps[i]
		}
	}
	return nonPhis
}

// doRecover implements the recover() built-in.
func doRecover(caller *frame) value {
	// recover() must be exactly one level beneath the deferred
	// function (two levels beneath the panicking function) to
	// have any effect.  Thus we ignore both "defer recover()" and
	// "defer f() -> g() -> recover()".
	if caller.i.mode&DisableRecover == 0 &&
		caller != nil && !caller.panicking &&
		caller.caller != nil && caller.caller.panicking {
		caller.caller.panicking = false
		p := caller.caller.panic
		caller.caller.panic = nil

		switch p := p.(type) {
		case targetPanic:
			// The target program explicitly called panic().
			return p.v
		case targetRuntimeError:
			return iface{caller.i.runtimeErrorString, "runtime error: " + p.msg}
		default:
			panic(fmt.Sprintf("unexpected panic type %T in target call to recover()", p))
		}
	}
	return iface{}
}

