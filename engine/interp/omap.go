package interp

// omap: the one map representation of the engine.  Insertion-ordered (so that
// iteration is deterministic and re-execution reproduces a path), with a hash
// index for concrete keys of basic/pointer type and a linear scan (deciding
// equality with the solver when needed) for everything else.

import (
	"go/token"
	"go/types"
)

type omap struct {
	kt    types.Type
	keys  []value
	vals  []value
	live  []bool
	n     int
	index map[any]int // concrete hashable keys only
	order []int       // optional iteration permutation (nondet.MapOrder)
}

func newOmap(kt types.Type) *omap {
	return &omap{kt: kt, index: map[any]int{}}
}

// makeMap returns an empty initialized map of key type kt.
func makeMap(kt types.Type, reserve int64) value { return newOmap(kt) }

func indexable(k value) bool {
	switch k.(type) {
	case bool, int, int8, int16, int32, int64, uint, uint8, uint16, uint32, uint64, uintptr, float32, float64, string, *value, chan value:
		return true
	}
	return false
}

// keyEq decides (forking if necessary) whether two keys are equal.
func (m *omap) keyEq(a, b value) bool {
	return decideCond(eqValue(m.kt, a, b))
}

func (m *omap) find(k value) int {
	if m == nil {
		return -1
	}
	if indexable(k) {
		if i, ok := m.index[k]; ok {
			return i
		}
		// a concrete key can still equal a symbolic key already present
		for i := range m.keys {
			if m.live[i] && !indexable(m.keys[i]) && m.keyEq(m.keys[i], k) {
				return i
			}
		}
		return -1
	}
	k = normKey(k)
	if indexable(k) {
		return m.find(k)
	}
	for i := range m.keys {
		if m.live[i] && m.keyEq(m.keys[i], k) {
			return i
		}
	}
	return -1
}

func normKey(k value) value {
	if s, ok := k.(symstr); ok {
		return normStr(s)
	}
	return k
}

func (m *omap) get(k value) (value, bool) {
	if i := m.find(k); i >= 0 {
		return m.vals[i], true
	}
	return nil, false
}

func (m *omap) set(k, v value) {
	if m == nil {
		rtpanic("assignment to entry in nil map")
	}
	k = normKey(k)
	if i := m.find(k); i >= 0 {
		m.vals[i] = v
		return
	}
	m.keys = append(m.keys, k)
	m.vals = append(m.vals, v)
	m.live = append(m.live, true)
	if indexable(k) {
		m.index[k] = len(m.keys) - 1
	}
	m.n++
}

func (m *omap) del(k value) {
	if m == nil {
		return
	}
	if i := m.find(k); i >= 0 {
		m.live[i] = false
		if indexable(m.keys[i]) {
			delete(m.index, m.keys[i])
		}
		m.n--
	}
}

func (m *omap) len() int {
	if m == nil {
		return 0
	}
	return m.n
}

func (m *omap) clear() {
	if m == nil {
		return
	}
	m.keys, m.vals, m.live, m.n = nil, nil, nil, 0
	m.index = map[any]int{}
}

type omapIter struct {
	m    *omap
	i    int
	perm []int
}

func (m *omap) iter() *omapIter {
	it := &omapIter{m: m}
	if m != nil && mapOrderMode != 0 && m.n > 1 {
		it.perm = modePerm(m, mapOrderMode)
	}
	return it
}

func (it *omapIter) next() tuple {
	m := it.m
	if m == nil {
		return []value{false, nil, nil}
	}
	if it.perm != nil {
		if it.i >= len(it.perm) {
			return []value{false, nil, nil}
		}
		k := it.perm[it.i]
		it.i++
		if !m.live[k] { // deleted during iteration
			return it.next()
		}
		return []value{true, m.keys[k], m.vals[k]}
	}
	for it.i < len(m.keys) {
		k := it.i
		it.i++
		if m.live[k] {
			return []value{true, m.keys[k], m.vals[k]}
		}
	}
	return []value{false, nil, nil}
}

// mapOrderMode: 0 = insertion order; 1 = reverse, 2 = rotated by one, 3 =
// rotated by half.  nondet.MapOrder(true) picks one of the three as a free
// choice of the explorer and applies it to every map iterated while it is on
// (one choice per run keeps the schedule space small; the reverse order is the
// strongest single probe of an order dependence).
var mapOrderMode int

func modePerm(m *omap, mode int) []int {
	var live []int
	for i := range m.keys {
		if m.live[i] {
			live = append(live, i)
		}
	}
	n := len(live)
	r := make([]int, n)
	for i := range live {
		switch mode {
		case 1:
			r[i] = live[n-1-i]
		case 2:
			r[i] = live[(i+1)%n]
		default:
			r[i] = live[(i+n/2)%n]
		}
	}
	return r
}

// eqValue returns x == y for type t as a bool or, if symbolic values are
// involved, as a Sym of Boolean sort.
func eqValue(t types.Type, x, y value) value {
	switch x := x.(type) {
	case structure:
		y := y.(structure)
		tStruct := t.Underlying().(*types.Struct)
		var acc value = true
		for i, n := 0, tStruct.NumFields(); i < n; i++ {
			f := tStruct.Field(i)
			if f.Name() == "_" {
				continue
			}
			acc = andValue(acc, eqValue(f.Type(), x[i], y[i]))
			if acc == false {
				return false
			}
		}
		return acc
	case array:
		y := y.(array)
		tElt := t.Underlying().(*types.Array).Elem()
		var acc value = true
		for i := range x {
			acc = andValue(acc, eqValue(tElt, x[i], y[i]))
			if acc == false {
				return false
			}
		}
		return acc
	case iface:
		y := y.(iface)
		if !sameType(x.t, y.t) {
			return false
		}
		if x.t == nil {
			return true
		}
		return eqValue(x.t, x.v, y.v)
	}
	if isSymbolic(x) || isSymbolic(y) {
		return binopSym(token.EQL, t, x, y)
	}
	return equals(t, x, y)
}

func andValue(a, b value) value {
	if a == true {
		return b
	}
	if b == true {
		return a
	}
	if a == false || b == false {
		return false
	}
	return Sym{T: "(and " + a.(Sym).T + " " + b.(Sym).T + ")"}
}

func notValue(a value) value {
	switch a := a.(type) {
	case bool:
		return !a
	case Sym:
		return Sym{T: "(not " + a.T + ")"}
	}
	panic("notValue")
}
