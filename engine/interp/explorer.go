package interp

// Path exploration by re-execution: a path is identified by its decision
// vector (tokens "1"/"0" for solver-decided and free binary choices, "v<n>" for
// a concretisation value).  One persistent solver process per worker.

import (
	"bufio"
	"fmt"
	"go/token"
	"io"
	"bytes"
	"os"
	"os/exec"
	"regexp"
	"runtime/debug"
	"sort"
	"strconv"
	"strings"
	"time"

	"golang.org/x/tools/go/ssa"
)

// PathResult is one finished path, or one assertion violation met on the way.
type PathResult struct {
	Kind   string            `json:"kind"`
	Msg    string            `json:"msg,omitempty"`
	Where  string            `json:"where,omitempty"`
	Stack  []string          `json:"stack,omitempty"`
	Model  map[string]string `json:"model,omitempty"`
	Obs    []string          `json:"obs,omitempty"`
	Cover  []string          `json:"cover,omitempty"`
	Prefix string            `json:"prefix"`
	Instrs int64             `json:"instrs"`
	Final  bool              `json:"final"`
}

// Kinds of PathResult.
const (
	KOK          = "OK"
	KAssert      = "ASSERT-FAIL"
	KPanic       = "TARGET-PANIC"
	KRuntime     = "GO-RUNTIME-PANIC"
	KFuel        = "FUEL"
	KDeadlock    = "DEADLOCK"
	KRace        = "DATA-RACE"
	KAssume      = "ASSUME-DROPPED"
	KUnsupported = "UNSUPPORTED"
	KEngine      = "ENGINE-ERROR"
	KUnknown     = "SOLVER-UNKNOWN"
)

type abortPath struct {
	kind string
	msg  string
}

type assertFail struct{ msg string }
type targetRuntimeError struct{ msg string }

func (e targetRuntimeError) Error() string { return "runtime error: " + e.msg }

func unsupported(format string, a ...any) {
	panic(abortPath{KUnsupported, fmt.Sprintf(format, a...)})
}

func rtpanic(format string, a ...any) {
	panic(targetRuntimeError{fmt.Sprintf(format, a...)})
}

var fuel int64

// pathDeadline bounds one path in wall-clock time as well: a loop whose every
// iteration asks the solver about ever larger terms exhausts hours, not instructions.
var pathDeadline time.Time

const pathSeconds = 90

func tick() {
	X.Instrs++
	fuel--
	if fuel < 0 {
		panic(abortPath{KFuel, "instruction budget exhausted"})
	}
	if fuel&0x3f == 0 && !pathDeadline.IsZero() && time.Now().After(pathDeadline) {
		panic(abortPath{KFuel, fmt.Sprintf("one path ran for more than %d s", pathSeconds)})
	}
}

type obsEntry struct {
	label string
	terms []string // each either a literal rendering (prefixed "=") or an SMT term
}

type Explorer struct {
	prefix  []string
	pos     int
	trail   []string
	pending [][]string
	z       *solver
	decls   map[string]int // name -> width (0 = not declared)
	declOrd []string
	QFallback int64
	sincePaths int
	known   map[string]bool
	chosen  map[string]int64
	nfun    int
	obs     []obsEntry
	cover   map[string]bool
	curRes  []PathResult

	SolverCmd   []string
	TimeoutMS   int
	Concrete    map[string]uint64 // concrete replay: nondet values come from here, no solver
	IsConcrete  bool
	Params      map[string]int
	MaxCallDepth int

	Cached      int64
	Concretized int64
	Switches    int64
	Instrs      int64
	Queries     int64
	QSat        int64
	QUnsat      int64
	QUnknown    int64
	Paths       int
	SolverNS    time.Duration
	FuncCalls   map[string]int64
	ExtCalls    map[string]int64
	Intercepted map[string]int64
	Approx      int64
	InitInstrs  int64
	Debug       bool
}

var X *Explorer

type solver struct {
	cmd   *exec.Cmd
	in    *bufio.Writer
	out   *bufio.Reader
	log   io.Writer
	lines chan string
	limit time.Duration
	argv  []string
	toMS  int
	dead  bool
	// the commands of the current path (scope depth 1), kept so that a query the
	// solver cannot decide can be handed to the other solver as a one-shot script
	depth  int
	script []string
}

func newSolver(argv []string, timeoutMS int) *solver {
	cmd := exec.Command(argv[0], argv[1:]...)
	in, _ := cmd.StdinPipe()
	out, _ := cmd.StdoutPipe()
	cmd.Stderr = os.Stderr
	if err := cmd.Start(); err != nil {
		panic(err)
	}
	s := &solver{cmd: cmd, in: bufio.NewWriterSize(in, 1<<16), out: bufio.NewReaderSize(out, 1<<16), argv: argv, toMS: timeoutMS,
		lines: make(chan string, 64), limit: time.Duration(timeoutMS)*time.Millisecond + 10*time.Second}
	go func(r *bufio.Reader, ch chan string) {
		for {
			l, err := r.ReadString('\n')
			if err != nil {
				close(ch)
				return
			}
			ch <- l
		}
	}(s.out, s.lines)
	if f := os.Getenv("SYMGO_SMTLOG"); f != "" {
		w, _ := os.Create(fmt.Sprintf("%s.%d", f, os.Getpid()))
		s.log = w
	}
	s.send("(set-option :print-success false)")
	s.send("(set-option :produce-models true)")
	if strings.Contains(argv[0], "z3") {
		s.send(fmt.Sprintf("(set-option :timeout %d)", timeoutMS))
	} else {
		s.send("(set-logic ALL)")
	}
	return s
}

func (s *solver) send(l string) {
	if s.dead {
		if s.depth == 1 && (strings.HasPrefix(l, "(assert") || strings.HasPrefix(l, "(declare") || strings.HasPrefix(l, "(define")) {
			s.script = append(s.script, l)
		}
		return
	}
	if s.log != nil {
		io.WriteString(s.log, l+"\n")
	}
	switch {
	case strings.HasPrefix(l, "(push"):
		s.depth++
		if s.depth == 1 {
			s.script = s.script[:0]
		}
	case strings.HasPrefix(l, "(pop"):
		s.depth--
	case s.depth == 1 && !strings.HasPrefix(l, "(check-sat") && !strings.HasPrefix(l, "(get-") && !strings.HasPrefix(l, "(set-option"):
		s.script = append(s.script, l)
	}
	s.in.WriteString(l)
	s.in.WriteByte('\n')
}

func (s *solver) line() string {
	if s.dead {
		panic(abortPath{KUnknown, "solver was stopped after exceeding its time limit"})
	}
	s.in.Flush()
	for {
		select {
		case l, ok := <-s.lines:
			if !ok {
				s.dead = true
				panic(abortPath{KUnknown, "solver died"})
			}
			l = strings.TrimSpace(l)
			if l != "" {
				return l
			}
		case <-time.After(s.limit):
			// the solver ignored its own timeout: stop it; the explorer starts a new one for the next path
			s.dead = true
			s.cmd.Process.Kill()
			panic(abortPath{KUnknown, "solver did not answer within its time limit (process stopped)"})
		}
	}
}

func (s *solver) close() {
	if !s.dead {
		s.send("(exit)")
		s.in.Flush()
	}
	s.cmd.Process.Kill()
	s.cmd.Wait()
}

// sexpr reads one balanced s-expression (possibly over several lines).
func (s *solver) sexpr() string {
	depth, started := 0, false
	var sb strings.Builder
	for !started || depth > 0 {
		l := s.line()
		sb.WriteString(l + " ")
		for _, c := range l {
			if c == '(' {
				depth++
				started = true
			} else if c == ')' {
				depth--
			}
		}
		if !started {
			break
		}
	}
	return sb.String()
}

// check: is pc ∧ extra satisfiable?  Any answer other than sat/unsat closes the
// path as inconclusive.
func pathTimeCheck() {
	if !pathDeadline.IsZero() && time.Now().After(pathDeadline) {
		panic(abortPath{KFuel, fmt.Sprintf("one path ran for more than %d s", pathSeconds)})
	}
}

func (e *Explorer) check(extra string) bool {
	if extra == "true" {
		extra = "true"
	}
	pathTimeCheck()
	t0 := time.Now()
	e.Queries++
	r := "unknown"
	if !e.z.dead {
		func() {
			defer func() {
				if x := recover(); x != nil {
					if a, ok := x.(abortPath); ok && a.kind == KUnknown {
						r = "unknown: " + a.msg
						return
					}
					panic(x)
				}
			}()
			e.z.send("(push 1)")
			e.z.send("(assert " + extra + ")")
			e.z.send("(check-sat)")
			r = e.z.line()
			e.z.send("(pop 1)")
		}()
	}
	if r != "sat" && r != "unsat" {
		// second opinion: the same path condition and query as a one-shot script for the other solver
		if fr := e.fallback(extra); fr == "sat" || fr == "unsat" {
			e.QFallback++
			r = fr
		}
	}
	e.SolverNS += time.Since(t0)
	switch r {
	case "sat":
		e.QSat++
		return true
	case "unsat":
		e.QUnsat++
		return false
	}
	e.QUnknown++
	// drain a possible error continuation is not needed: one line per check-sat
	panic(abortPath{KUnknown, "solver answered " + r})
}

// fallback decides pc ∧ extra with the solver that is not the primary one
// (z3 <-> cvc5), as a fresh process under a hard time limit.
func (e *Explorer) fallback(extra string) string {
	if os.Getenv("SYMGO_NO_FALLBACK") != "" || e.z == nil {
		return "unknown"
	}
	var argv []string
	var sb strings.Builder
	limit := 2*e.TimeoutMS + 30000
	if strings.Contains(e.SolverCmd[0], "z3") {
		argv = []string{"cvc5", "--lang=smt2", fmt.Sprintf("--tlimit=%d", limit)}
		sb.WriteString("(set-logic ALL)\n")
	} else {
		argv = []string{"z3", "-in", fmt.Sprintf("-t:%d", limit)}
	}
	for _, l := range e.z.script {
		sb.WriteString(l)
		sb.WriteByte('\n')
	}
	sb.WriteString("(assert " + extra + ")\n(check-sat)\n")
	cmd := exec.Command(argv[0], argv[1:]...)
	cmd.Stdin = strings.NewReader(sb.String())
	var out bytes.Buffer
	cmd.Stdout = &out
	if err := cmd.Start(); err != nil {
		return "unknown"
	}
	done := make(chan struct{})
	go func() { cmd.Wait(); close(done) }()
	select {
	case <-done:
	case <-time.After(time.Duration(limit+15000) * time.Millisecond):
		cmd.Process.Kill()
		<-done
		return "unknown"
	}
	txt := out.String()
	if strings.Contains(txt, "(error") {
		return "unknown"
	}
	for _, l := range strings.Split(txt, "\n") {
		l = strings.TrimSpace(l)
		if l == "sat" || l == "unsat" {
			return l
		}
	}
	return "unknown"
}

var bvLit = regexp.MustCompile(`^\(\s*([^\s()]+)\s+(#x[0-9a-fA-F]+|#b[01]+|\(_ bv[0-9]+ [0-9]+\)|true|false)\s*\)`)

// model returns the values of all declared constants and of the observation
// terms under pc ∧ extra (which must be satisfiable).
func (e *Explorer) model(extra string) (map[string]string, []string, bool) {
	m := map[string]string{}
	if e.IsConcrete {
		for k, v := range e.Concrete {
			m[k] = strconv.FormatUint(v, 10)
		}
		return m, e.renderObs(nil), true
	}
	pathTimeCheck()
	t0 := time.Now()
	defer func() { e.SolverNS += time.Since(t0) }()
	e.z.send("(push 1)")
	defer e.z.send("(pop 1)")
	e.z.send("(assert " + extra + ")")
	// observation terms get names so that get-value output is easy to parse
	oterms := e.obsSolverTerms()
	e.z.send("(check-sat)")
	e.Queries++
	r := e.z.line()
	if r != "sat" {
		return nil, nil, false
	}
	names := append([]string(nil), e.declOrd...)
	vals := map[string]string{}
	all := append(append([]string(nil), names...), oterms...)
	for lo := 0; lo < len(all); lo += 200 {
		hi := lo + 200
		if hi > len(all) {
			hi = len(all)
		}
		e.z.send("(get-value (" + strings.Join(all[lo:hi], " ") + "))")
		out := e.z.sexpr()
		vs := splitValues(out)
		if len(vs) != hi-lo {
			panic(abortPath{KEngine, "cannot parse get-value output: " + out})
		}
		for k, v := range vs {
			vals[all[lo+k]] = v
		}
	}
	for _, n := range names {
		m[n] = vals[n]
	}
	return m, e.renderObs(vals), true
}

// splitValues parses "((t1 v1) (t2 v2) ...)" into the decimal renderings of v1, v2 ...
func splitValues(out string) []string {
	out = strings.TrimSpace(out)
	// strip outer parens
	if len(out) < 2 {
		return nil
	}
	out = out[1 : len(out)-1]
	var res []string
	depth := 0
	start := -1
	for i, c := range out {
		switch c {
		case '(':
			if depth == 0 {
				start = i
			}
			depth++
		case ')':
			depth--
			if depth == 0 && start >= 0 {
				res = append(res, parsePairValue(out[start:i+1]))
				start = -1
			}
		}
	}
	return res
}

// parsePairValue takes "(term value)" and renders value in decimal (or true/false).
func parsePairValue(p string) string {
	p = strings.TrimSpace(p)
	p = p[1 : len(p)-1]
	// the value is the last atom or last parenthesised group
	p = strings.TrimSpace(p)
	var v string
	if strings.HasSuffix(p, ")") {
		depth := 0
		for i := len(p) - 1; i >= 0; i-- {
			if p[i] == ')' {
				depth++
			} else if p[i] == '(' {
				depth--
				if depth == 0 {
					v = p[i:]
					break
				}
			}
		}
	} else {
		i := strings.LastIndexAny(p, " \t")
		v = p[i+1:]
	}
	switch {
	case v == "true" || v == "false":
		return v
	case strings.HasPrefix(v, "#x"):
		u, _ := strconv.ParseUint(v[2:], 16, 64)
		return strconv.FormatUint(u, 10)
	case strings.HasPrefix(v, "#b"):
		u, _ := strconv.ParseUint(v[2:], 2, 64)
		return strconv.FormatUint(u, 10)
	case strings.HasPrefix(v, "(_ bv"):
		f := strings.Fields(v[5:])
		return f[0]
	}
	return "?" + v
}

func (e *Explorer) renderObs(vals map[string]string) []string {
	val := func(t string) string {
		if strings.HasPrefix(t, "=") {
			return t[1:]
		}
		if vals != nil {
			return vals[t]
		}
		return "?"
	}
	var out []string
	for _, o := range e.obs {
		var parts []string
		for _, t := range o.terms {
			if strings.HasPrefix(t, "~") { // a string given byte by byte
				var bs []string
				if len(t) > 1 {
					for _, b := range strings.Split(t[1:], "\x00") {
						bs = append(bs, val(b))
					}
				}
				parts = append(parts, "s"+strings.Join(bs, "."))
			} else {
				parts = append(parts, val(t))
			}
		}
		out = append(out, o.label+"="+strings.Join(parts, ","))
	}
	return out
}

// obsSolverTerms lists the SMT terms whose model values renderObs needs.
func (e *Explorer) obsSolverTerms() []string {
	var out []string
	for _, o := range e.obs {
		for _, t := range o.terms {
			if strings.HasPrefix(t, "~") {
				if len(t) > 1 {
					for _, b := range strings.Split(t[1:], "\x00") {
						if !strings.HasPrefix(b, "=") {
							out = append(out, b)
						}
					}
				}
			} else if !strings.HasPrefix(t, "=") {
				out = append(out, t)
			}
		}
	}
	return out
}

// Decide returns the truth value the current path takes for term, forking
// when both are feasible.
func (e *Explorer) Decide(term string) bool {
	switch term {
	case "true":
		return true
	case "false":
		return false
	}
	if d, ok := e.known[term]; ok {
		// the same literal is already on the path condition: no query and no decision slot
		e.Cached++
		return d
	}
	if e.pos < len(e.prefix) {
		d := e.prefix[e.pos] == "1"
		e.pos++
		e.trail = append(e.trail, e.prefix[e.pos-1])
		e.assert(term, d)
		return d
	}
	e.pos++
	t := e.check(term)
	f := true
	if t {
		f = e.check("(not " + term + ")")
	}
	var d bool
	switch {
	case t && f:
		alt := append(append([]string(nil), e.trail...), "0")
		e.pending = append(e.pending, alt)
		d = true
	case t:
		d = true
	case f:
		d = false
	default:
		panic(abortPath{KAssume, "path condition became infeasible"})
	}
	if d {
		e.trail = append(e.trail, "1")
	} else {
		e.trail = append(e.trail, "0")
	}
	e.assert(term, d)
	return d
}

func (e *Explorer) assert(term string, d bool) {
	e.known[term] = d
	if e.IsConcrete {
		return
	}
	if d {
		e.z.send("(assert " + term + ")")
	} else {
		e.z.send("(assert (not " + term + "))")
	}
}

// free is an unconstrained binary choice (scheduling, map order): no query.
// Its tokens are "f1"/"f0" so that a concrete replay can tell them from
// solver-decided branches.
func (e *Explorer) free() bool {
	if e.pos < len(e.prefix) {
		tok := e.prefix[e.pos]
		if !strings.HasPrefix(tok, "f") {
			panic(abortPath{KEngine, "decision vector out of step (expected a free-choice token)"})
		}
		e.trail = append(e.trail, tok)
		e.pos++
		return tok == "f1"
	}
	e.pos++
	if e.Debug && len(CallStack) > 0 {
		fmt.Fprintln(os.Stderr, "FREE-CHOICE in", CallStack[len(CallStack)-1].String())
	}
	alt := append(append([]string(nil), e.trail...), "f0")
	e.pending = append(e.pending, alt)
	e.trail = append(e.trail, "f1")
	return true
}

// Choose is a free n-ary choice: unary encoding over free binary decisions.
func (e *Explorer) Choose(n int) int {
	for k := 0; k < n-1; k++ {
		if e.free() {
			return k
		}
	}
	return n - 1
}

// Concretize forks over the feasible values of a bit-vector term: value by
// value, each value recorded in the decision vector so that replays agree.
func (e *Explorer) Concretize(x Sym) uint64 {
	e.Concretized++
	for n := 0; ; n++ {
		if n > 300 {
			unsupported("concretisation of %s needs more than 300 values", x.T)
		}
		var v uint64
		if e.pos < len(e.prefix) {
			tok := e.prefix[e.pos]
			if !strings.HasPrefix(tok, "v") {
				panic(abortPath{KEngine, "decision vector out of step (expected a value token)"})
			}
			v, _ = strconv.ParseUint(tok[1:], 10, 64)
			e.pos++
			e.trail = append(e.trail, tok)
		} else {
			// ask the solver for one feasible value
			e.z.send("(push 1)")
			e.z.send("(check-sat)")
			e.Queries++
			r := e.z.line()
			if r != "sat" {
				e.z.send("(pop 1)")
				panic(abortPath{KUnknown, "solver answered " + r + " during concretisation"})
			}
			e.z.send("(get-value (" + x.T + "))")
			vs := splitValues(e.z.sexpr())
			e.z.send("(pop 1)")
			if len(vs) != 1 || strings.HasPrefix(vs[0], "?") {
				panic(abortPath{KEngine, "cannot read concretisation value"})
			}
			v, _ = strconv.ParseUint(vs[0], 10, 64)
			e.pos++
			e.trail = append(e.trail, "v"+vs[0])
		}
		if e.Decide(fmt.Sprintf("(= %s %s)", x.T, bv(v, x.W))) {
			return v
		}
	}
}

// ChooseValue forks over the feasible values of x in [lo, hi] all at once
// (one pending prefix per value), so that the alternatives can be explored in
// parallel.  Token structure is the same as Concretize's: "v<k>" then "1".
func (e *Explorer) ChooseValue(x Sym, lo, hi int64) int64 {
	if k, ok := e.chosen[x.T]; ok {
		return k
	}
	if e.pos < len(e.prefix) {
		k := int64(e.Concretize(x))
		e.chosen[x.T] = k
		return k
	}
	e.Concretized++
	var feas []int64
	for k := lo; k <= hi; k++ {
		if e.check(fmt.Sprintf("(= %s %s)", x.T, bv(uint64(k), x.W))) {
			feas = append(feas, k)
		}
	}
	if len(feas) == 0 {
		panic(abortPath{KAssume, "path condition became infeasible"})
	}
	for i := len(feas) - 1; i >= 1; i-- {
		alt := append(append([]string(nil), e.trail...), "v"+strconv.FormatUint(uint64(feas[i]), 10), "1")
		e.pending = append(e.pending, alt)
	}
	k := feas[0]
	e.chosen[x.T] = k
	e.pos += 2
	e.trail = append(e.trail, "v"+strconv.FormatUint(uint64(k), 10), "1")
	e.assert(fmt.Sprintf("(= %s %s)", x.T, bv(uint64(k), x.W)), true)
	return k
}

func (e *Explorer) declare(name string, w int) {
	if e.decls[name] == 0 {
		e.decls[name] = w
		e.declOrd = append(e.declOrd, name)
		if !e.IsConcrete {
			e.z.send(fmt.Sprintf("(declare-const %s (_ BitVec %d))", name, w))
		}
	}
}

// name gives a long term a name so that it is sent to the solver once.
func (e *Explorer) name(s Sym) Sym {
	if len(s.T) < 160 || e.IsConcrete {
		return s
	}
	e.nfun++
	n := fmt.Sprintf("t!%d", e.nfun)
	n = "|" + n + "|"
	e.z.send(fmt.Sprintf("(define-fun %s () %s %s)", n, s.sort(), s.T))
	s.T = n
	return s
}

func (s Sym) sort() string {
	switch {
	case s.F && s.W == 32:
		return "(_ FloatingPoint 8 24)"
	case s.F:
		return "(_ FloatingPoint 11 53)"
	case s.W == 0:
		return "Bool"
	}
	return fmt.Sprintf("(_ BitVec %d)", s.W)
}

func (e *Explorer) record(kind, msg string, final bool, extra string) {
	r := PathResult{Kind: kind, Msg: msg, Prefix: strings.Join(e.trail, " "), Instrs: e.Instrs, Final: final}
	cs := CallStack
	if final && abortStack != nil {
		cs = abortStack
	}
	for k := len(cs) - 1; k >= 0 && len(r.Stack) < 8; k-- {
		r.Stack = append(r.Stack, cs[k].String())
	}
	if len(r.Stack) > 0 {
		r.Where = r.Stack[0]
	}
	for c := range e.cover {
		r.Cover = append(r.Cover, c)
	}
	sort.Strings(r.Cover)
	func() {
		defer func() {
			if x := recover(); x != nil {
				r.Obs = append(r.Obs, fmt.Sprintf("model unavailable: %v", x))
			}
		}()
		m, obs, ok := e.model(extra)
		if ok {
			r.Model, r.Obs = m, obs
		}
	}()
	e.curRes = append(e.curRes, r)
}

// Config of one exploration job.
type Job struct {
	Prog       *ssa.Program
	Pkg        *ssa.Package
	Entry      string
	Interpret  func(pkgPath string) bool
	Fuel       int64
	SolverCmd  []string
	TimeoutMS  int
	Params     map[string]int
	MaxPreempt int
	Debug      bool
}

// NewExplorer starts a solver and returns an explorer for job j.
func NewExplorer(j *Job) *Explorer {
	e := &Explorer{SolverCmd: j.SolverCmd, TimeoutMS: j.TimeoutMS, Params: j.Params,
		FuncCalls: map[string]int64{}, ExtCalls: map[string]int64{}, Intercepted: map[string]int64{}, Debug: j.Debug}
	if len(e.SolverCmd) == 0 {
		e.SolverCmd = []string{"z3", "-in"}
	}
	if e.TimeoutMS == 0 {
		e.TimeoutMS = 60000
	}
	e.z = newSolver(e.SolverCmd, e.TimeoutMS)
	return e
}

func (e *Explorer) Close() {
	if e.z != nil {
		e.z.close()
	}
}

// RunPrefix executes the entry function once along prefix and returns the
// results met (violations on the way plus exactly one final result) and the
// alternative prefixes discovered.
func (e *Explorer) RunPrefix(j *Job, prefix []string, concrete map[string]uint64) (res []PathResult, pending [][]string) {
	X = e
	e.prefix, e.pos, e.trail, e.pending = prefix, 0, nil, nil
	e.decls = map[string]int{}
	e.declOrd = nil
	e.known = map[string]bool{}
	e.chosen = map[string]int64{}
	e.obs = nil
	e.cover = map[string]bool{}
	e.curRes = nil
	e.nfun = 0
	e.Concrete = concrete
	e.IsConcrete = concrete != nil
	if j.MaxPreempt > 0 {
		MaxPreempt = j.MaxPreempt
	} else if j.MaxPreempt < 0 {
		MaxPreempt = 0 // deterministic scheduling: switches only at blocking operations
	}
	if !e.IsConcrete {
		e.sincePaths++
		if e.z.dead || e.sincePaths > 400 {
			// a fresh solver process now and then: incremental solvers (cvc5 above all) keep growing over thousands of push/pop rounds
			e.z.close()
			e.z = newSolver(e.SolverCmd, e.TimeoutMS)
			e.sincePaths = 0
		}
		e.z.send("(push 1)")
	}
	CallStack = nil
	firstHostStack = ""
	abortStack = nil
	initDepth = 0
	resetSched()
	resetModels()
	fuel = j.Fuel
	if fuel == 0 {
		fuel = 2_000_000
	}
	pathDeadline = time.Now().Add(pathSeconds * time.Second)
	start := e.Instrs
	func() {
		defer func() {
			if r := recover(); r != nil {
				e.classify(r)
			}
		}()
		i := newInterp(j.Prog, j.Interpret)
		fn := j.Pkg.Func(j.Entry)
		if fn == nil {
			panic(abortPath{KEngine, "no entry function " + j.Entry})
		}
		call(i, nil, token.NoPos, fn, nil)
		e.record(KOK, "", true, "true")
	}()
	killGoroutines()
	if !e.IsConcrete && !e.z.dead {
		e.z.send("(pop 1)")
	}
	e.Paths++
	for k := range e.curRes {
		e.curRes[k].Instrs = e.Instrs - start
	}
	return e.curRes, e.pending
}

func (e *Explorer) classify(r any) {
	switch r := r.(type) {
	case abortPath:
		e.record(r.kind, r.msg, true, "true")
	case assertFail:
		// already recorded; the path could not continue (the passing side was infeasible)
		e.record(KOK, "ended at a failed assertion: "+r.msg, true, "true")
	case targetPanic:
		e.record(KPanic, panicText(r.v), true, "true")
	case targetRuntimeError:
		e.record(KRuntime, r.msg, true, "true")
	default:
		msg := fmt.Sprint(r)
		st := firstHostStack
		if st == "" {
			st = string(debug.Stack())
			if len(st) > 2500 {
				st = st[:2500]
			}
		}
		if e.Debug {
			fmt.Fprintln(os.Stderr, "ENGINE-ERROR:", msg)
			for _, f := range CallStack {
				fmt.Fprintln(os.Stderr, "   in", f.String())
			}
			fmt.Fprintln(os.Stderr, st)
		}
		e.record(KEngine, msg+"\n"+st, true, "true")
	}
}

func panicText(v value) (s string) {
	defer func() {
		if r := recover(); r != nil {
			s = fmt.Sprintf("<panic value %T>", v)
		}
	}()
	if it, ok := v.(iface); ok {
		if str, ok := it.v.(string); ok {
			return str
		}
		if st, ok := it.v.(*value); ok && st != nil {
			// error values built by errors.New / fmt.Errorf: first field is the message
			if s, ok := (*st).(structure); ok && len(s) > 0 {
				if m, ok := s[0].(string); ok {
					return m
				}
			}
		}
	}
	return toString(v)
}

func newInterp(prog *ssa.Program, interpret func(string) bool) *interpreter {
	i := &interpreter{
		prog:       prog,
		globals:    make(map[*ssa.Global]*value),
		sizes:      stdSizes,
		goroutines: 1,
		inited:     map[*ssa.Package]bool{},
		interpret:  interpret,
	}
	if rp := prog.ImportedPackage("runtime"); rp != nil {
		i.runtimeErrorString = rp.Type("errorString").Object().Type()
	}
	curInterp = i
	return i
}
