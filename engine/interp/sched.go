package interp

// Target goroutines are host goroutines passing a baton: exactly one runs at
// any time and the explorer chooses who runs next at every access to memory
// made by falco code (within a preemption budget) and at every blocking
// operation.  sync.Mutex/RWMutex, WaitGroup, Once, channels and select are
// modelled here with blocking semantics, and a vector-clock race detector
// watches loads and stores while more than one goroutine exists.

import (
	"fmt"
	"go/token"
	"go/types"
	"strings"
	"sync"

	"golang.org/x/tools/go/ssa"
)

type vclock []int

func (a vclock) join(b vclock) vclock {
	for len(a) < len(b) {
		a = append(a, 0)
	}
	for i := range b {
		if b[i] > a[i] {
			a[i] = b[i]
		}
	}
	return a
}

func (a vclock) copy() vclock { return append(vclock(nil), a...) }

// leq: a happens-before-or-equals b
func (a vclock) leq(b vclock) bool {
	for i := range a {
		bi := 0
		if i < len(b) {
			bi = b[i]
		}
		if a[i] > bi {
			return false
		}
	}
	return true
}

type gor struct {
	id      int
	wake    chan struct{}
	done    bool
	blocked func() bool // nil or: still blocked?
	clock   vclock
	stack   []*ssa.Function
}

type access struct {
	g     int
	clock vclock
	where string
}

type cellHist struct {
	write *access
	reads []*access
}

type scheduler struct {
	gs       []*gor
	cur      *gor
	preempts int
	abort    any
	Max      int
	hist     map[*value]*cellHist
	kill     bool
	host     sync.WaitGroup
}

var S *scheduler

// abortStack is the call stack of the goroutine in which the run was aborted.
var abortStack []*ssa.Function

func resetSched() {
	m := &gor{id: 0, wake: make(chan struct{}, 1), clock: vclock{1}}
	S = &scheduler{gs: []*gor{m}, cur: m, Max: MaxPreempt, hist: map[*value]*cellHist{}}
}

var MaxPreempt = 2

// YieldEverywhere makes every load/store a scheduling point (default: falco code only).
var YieldEverywhere = false

func runnableOthers() []*gor {
	var r []*gor
	for _, g := range S.gs {
		if g != S.cur && !g.done && (g.blocked == nil || !g.blocked()) {
			r = append(r, g)
		}
	}
	return r
}

func inFalco(fr *frame) bool {
	f := fr.fn
	for f.Parent() != nil {
		f = f.Parent()
	}
	return f.Pkg != nil && strings.Contains(f.Pkg.Pkg.Path(), "ysugimoto/falco") && !strings.HasPrefix(f.Name(), "Verif") && !strings.HasPrefix(f.Name(), "verif")
}

func tickClock(g *gor) {
	for len(g.clock) <= g.id {
		g.clock = append(g.clock, 0)
	}
	g.clock[g.id]++
}

// yieldPoint is called before every load and store.
func yieldPoint(fr *frame, addr *value, isStore bool) {
	if S == nil || len(S.gs) < 2 || initDepth > 0 {
		return
	}
	if !YieldEverywhere && !inFalco(fr) {
		return
	}
	// scheduling choice first, then the access is recorded by whoever performs it
	if S.preempts < S.Max {
		if rs := runnableOthers(); len(rs) > 0 {
			c := X.Choose(1 + len(rs))
			if c != 0 {
				S.preempts++
				X.Switches++
				switchTo(rs[c-1])
			}
		}
	}
	raceCheck(fr, addr, isStore)
}

func raceCheck(fr *frame, addr *value, isStore bool) {
	g := S.cur
	h := S.hist[addr]
	if h == nil {
		h = &cellHist{}
		S.hist[addr] = h
	}
	where := fr.fn.String()
	me := &access{g: g.id, clock: g.clock.copy(), where: where}
	conflict := func(o *access, kind string) {
		if o != nil && o.g != g.id && !o.clock.leq(g.clock) {
			k2 := "read"
			if isStore {
				k2 = "write"
			}
			panic(abortPath{KRace, fmt.Sprintf("%s in %s (goroutine %d) and %s in %s (goroutine %d) on the same memory cell are not ordered by any synchronisation", kind, o.where, o.g, k2, where, g.id)})
		}
	}
	conflict(h.write, "write")
	if isStore {
		for _, r := range h.reads {
			conflict(r, "read")
		}
		h.write = me
		h.reads = nil
	} else {
		// keep one read per goroutine
		for i, r := range h.reads {
			if r.g == g.id {
				h.reads[i] = me
				return
			}
		}
		h.reads = append(h.reads, me)
	}
}

// pickRunnable chooses who runs next at a blocking operation: a free choice of
// the explorer, except in deterministic mode (preemption bound 0) where the
// oldest runnable goroutine runs.
func pickRunnable(n int) int {
	if S.Max == 0 || n == 1 {
		return 0
	}
	return X.Choose(n)
}

func switchTo(g *gor) {
	sched := S
	me := sched.cur
	me.stack = CallStack
	sched.cur = g
	CallStack = g.stack
	g.wake <- struct{}{}
	<-me.wake
	if sched.kill {
		panic(abortPath{KAssume, "run ended"})
	}
	CallStack = me.stack
	if sched.abort != nil && me.id == 0 {
		a := sched.abort
		sched.abort = nil
		panic(a)
	}
}

// block parks the current goroutine until cond() is false, letting others run.
func block(cond func() bool) {
	for cond() {
		S.cur.blocked = cond
		rs := runnableOthers()
		if len(rs) == 0 {
			S.cur.blocked = nil
			panic(abortPath{KDeadlock, "all goroutines are blocked"})
		}
		switchTo(rs[pickRunnable(len(rs))])
		S.cur.blocked = nil
	}
}

func spawn(fr *frame, pos token.Pos, fn value, args []value) {
	parent := S.cur
	g := &gor{id: len(S.gs), wake: make(chan struct{}, 1)}
	if len(S.gs) >= 8 {
		unsupported("more than 8 goroutines")
	}
	tickClock(parent)
	g.clock = parent.clock.copy()
	for len(g.clock) <= g.id {
		g.clock = append(g.clock, 0)
	}
	g.clock[g.id] = 1
	S.gs = append(S.gs, g)
	sched := S
	i := fr.i
	sched.host.Add(1)
	go func() {
		defer sched.host.Done()
		<-g.wake
		if sched.kill {
			return
		}
		func() {
			defer func() {
				if r := recover(); r != nil {
					if sched.abort == nil && !sched.kill {
						sched.abort = r
						abortStack = append([]*ssa.Function(nil), CallStack...)
					}
				}
			}()
			call(i, nil, pos, fn, args)
		}()
		g.done = true
		if sched.kill {
			return
		}
		if sched.abort != nil {
			sched.cur = sched.gs[0]
			sched.gs[0].wake <- struct{}{}
			return
		}
		// hand the baton to someone who can run
		var rs []*gor
		for _, o := range sched.gs {
			if o != g && !o.done && (o.blocked == nil || !o.blocked()) {
				rs = append(rs, o)
			}
		}
		if len(rs) == 0 {
			sched.abort = abortPath{KDeadlock, "all goroutines are blocked"}
			sched.cur = sched.gs[0]
			sched.gs[0].wake <- struct{}{}
			return
		}
		var n *gor
		func() {
			defer func() {
				if r := recover(); r != nil {
					sched.abort = r
					n = sched.gs[0]
				}
			}()
			n = rs[pickRunnable(len(rs))]
		}()
		sched.cur = n
		CallStack = n.stack
		n.wake <- struct{}{}
	}()
}

// killGoroutines releases the host goroutines still parked at the end of a run.
func killGoroutines() {
	if S == nil {
		return
	}
	S.kill = true
	for _, g := range S.gs[1:] {
		select {
		case g.wake <- struct{}{}:
		default:
		}
	}
	S.host.Wait()
}

// ---- channels

type mchan struct {
	buf    []value
	cap    int
	closed bool
	elem   types.Type
	never  bool
	clock  vclock
	taken  int // number of values received so far (rendezvous bookkeeping)
	sent   int
}

func newChan(cap int, elem types.Type) *mchan { return &mchan{cap: cap, elem: elem} }

func chanSend(fr *frame, c value, v value) {
	ch, ok := c.(*mchan)
	if !ok || ch == nil {
		block(func() bool { return true }) // nil channel blocks for ever
	}
	if ch.closed {
		panic(targetPanic{iface{types.Typ[types.String], "send on closed channel"}})
	}
	block(func() bool { return ch.cap > 0 && len(ch.buf) >= ch.cap && !ch.closed })
	tickClock(S.cur)
	ch.clock = ch.clock.join(S.cur.clock)
	ch.buf = append(ch.buf, v)
	ch.sent++
	my := ch.sent
	if ch.cap == 0 {
		// unbuffered: wait until the value has been taken
		block(func() bool { return ch.taken < my && !ch.closed })
	}
}

func chanRecv(c value, commaOk bool, elem types.Type) value {
	ch, _ := c.(*mchan)
	if ch == nil || ch.never {
		block(func() bool { return true })
	}
	block(func() bool { return len(ch.buf) == 0 && !ch.closed })
	var v value
	ok := false
	if len(ch.buf) > 0 {
		v = ch.buf[0]
		ch.buf = ch.buf[1:]
		ch.taken++
		ok = true
		S.cur.clock = S.cur.clock.join(ch.clock)
	} else {
		v = zero(elem)
	}
	if commaOk {
		return tuple{v, ok}
	}
	return v
}

func chanClose(c value) {
	ch := c.(*mchan)
	if ch == nil {
		panic(targetPanic{iface{types.Typ[types.String], "close of nil channel"}})
	}
	if ch.closed {
		panic(targetPanic{iface{types.Typ[types.String], "close of closed channel"}})
	}
	tickClock(S.cur)
	ch.clock = ch.clock.join(S.cur.clock)
	ch.closed = true
}

func chanSelect(fr *frame, instr *ssa.Select) value {
	type st struct {
		ch   *mchan
		send bool
		val  value
	}
	var states []st
	for _, s := range instr.States {
		ch, _ := fr.get(s.Chan).(*mchan)
		x := st{ch: ch, send: s.Dir == types.SendOnly}
		if x.send {
			x.val = fr.get(s.Send)
		}
		states = append(states, x)
	}
	ready := func() []int {
		var r []int
		for i, s := range states {
			if s.ch == nil || s.ch.never {
				continue
			}
			if s.send {
				if s.ch.closed || (s.ch.cap > 0 && len(s.ch.buf) < s.ch.cap) {
					r = append(r, i)
				}
			} else if len(s.ch.buf) > 0 || s.ch.closed {
				r = append(r, i)
			}
		}
		return r
	}
	for _, s := range states {
		if s.send && s.ch != nil && s.ch.cap == 0 {
			unsupported("select with a send on an unbuffered channel")
		}
	}
	r := ready()
	if len(r) == 0 {
		if !instr.Blocking {
			res := tuple{-1, false}
			for _, s := range instr.States {
				if s.Dir == types.RecvOnly {
					res = append(res, zero(s.Chan.Type().Underlying().(*types.Chan).Elem()))
				}
			}
			return res
		}
		block(func() bool { return len(ready()) == 0 })
		r = ready()
	}
	chosen := r[0]
	if len(r) > 1 {
		chosen = r[X.Choose(len(r))]
	}
	res := tuple{chosen, false}
	recvOk := false
	var recvd value
	s := states[chosen]
	if s.send {
		chanSend(fr, s.ch, s.val)
	} else {
		t := chanRecv(s.ch, true, s.ch.elem).(tuple)
		recvd, recvOk = t[0], t[1].(bool)
	}
	res[1] = recvOk
	for i, s := range instr.States {
		if s.Dir == types.RecvOnly {
			if i == chosen && recvOk {
				res = append(res, recvd)
			} else {
				res = append(res, zero(s.Chan.Type().Underlying().(*types.Chan).Elem()))
			}
		}
	}
	return res
}

// ---- sync primitives (side tables keyed by the address of the object)

type mutexState struct {
	locked  bool
	readers int
	clock   vclock
}

var mutexes map[*value]*mutexState
var wgCount map[*value]int
var wgClock map[*value]vclock
var onceDone map[*value]bool

func mtx(p value) *mutexState {
	k := p.(*value)
	m := mutexes[k]
	if m == nil {
		m = &mutexState{}
		mutexes[k] = m
	}
	return m
}

func init() {
	lock := func(fr *frame, args []value) value {
		m := mtx(args[0])
		block(func() bool { return m.locked || m.readers > 0 })
		m.locked = true
		S.cur.clock = S.cur.clock.join(m.clock)
		return nil
	}
	unlock := func(fr *frame, args []value) value {
		m := mtx(args[0])
		if !m.locked {
			panic(targetPanic{iface{types.Typ[types.String], "sync: unlock of unlocked mutex"}})
		}
		tickClock(S.cur)
		m.clock = m.clock.join(S.cur.clock)
		m.locked = false
		return nil
	}
	externals["(*sync.Mutex).Lock"] = lock
	externals["(*sync.Mutex).Unlock"] = unlock
	externals["(*sync.Mutex).TryLock"] = func(fr *frame, args []value) value {
		m := mtx(args[0])
		if m.locked || m.readers > 0 {
			return false
		}
		m.locked = true
		S.cur.clock = S.cur.clock.join(m.clock)
		return true
	}
	externals["(*sync.RWMutex).Lock"] = lock
	externals["(*sync.RWMutex).Unlock"] = unlock
	externals["(*sync.RWMutex).RLock"] = func(fr *frame, args []value) value {
		m := mtx(args[0])
		block(func() bool { return m.locked })
		m.readers++
		S.cur.clock = S.cur.clock.join(m.clock)
		return nil
	}
	externals["(*sync.RWMutex).RUnlock"] = func(fr *frame, args []value) value {
		m := mtx(args[0])
		tickClock(S.cur)
		m.clock = m.clock.join(S.cur.clock)
		m.readers--
		return nil
	}
	externals["(*sync.WaitGroup).Add"] = func(fr *frame, args []value) value {
		wgCount[args[0].(*value)] += int(asInt64(args[1]))
		return nil
	}
	externals["(*sync.WaitGroup).Done"] = func(fr *frame, args []value) value {
		k := args[0].(*value)
		tickClock(S.cur)
		wgClock[k] = wgClock[k].join(S.cur.clock)
		wgCount[k]--
		if wgCount[k] < 0 {
			panic(targetPanic{iface{types.Typ[types.String], "sync: negative WaitGroup counter"}})
		}
		return nil
	}
	externals["(*sync.WaitGroup).Wait"] = func(fr *frame, args []value) value {
		k := args[0].(*value)
		block(func() bool { return wgCount[k] > 0 })
		S.cur.clock = S.cur.clock.join(wgClock[k])
		return nil
	}
	externals["(*sync.WaitGroup).Go"] = func(fr *frame, args []value) value {
		k := args[0].(*value)
		wgCount[k]++
		f := args[1]
		done := externals["(*sync.WaitGroup).Done"]
		i := fr.i
		_ = i
		spawnFunc(fr, func(fr2 *frame) {
			call(fr.i, nil, token.NoPos, f, nil)
			done(fr, []value{k})
		})
		return nil
	}
	externals["(*sync.Once).Do"] = func(fr *frame, args []value) value {
		k := args[0].(*value)
		if !onceDone[k] {
			onceDone[k] = true
			call(fr.i, fr, token.NoPos, args[1], nil)
		}
		return nil
	}
	externals["runtime.Gosched"] = func(fr *frame, args []value) value { return nil }
}

// spawnFunc is spawn for a host closure (used by models).
func spawnFunc(fr *frame, body func(fr *frame)) {
	unsupported("WaitGroup.Go")
}
