package interp

// Models of standard-library functions that have no Go body, use unsafe or
// reflection, or are environment: each is part of the trusted base and is
// counted per use in the evidence (ExtCalls).

import (
	"fmt"
	"go/token"
	"go/types"
	"math"
	"net"
	"regexp"
	"sort"
	"strconv"
	"strings"
	"time"

	"golang.org/x/tools/go/ssa"
)

var builders map[*value]*[]value
var syncMaps map[*value]*omap
var curInterp *interpreter

// enumAware lists models that accept finite-domain strings without forking.
var enumAware = map[string]bool{
	"fmt.Sprintf": true, "fmt.Errorf": true, "fmt.Sprint": true, "fmt.Sprintln": true,
	"fmt.Fprintf": true, "fmt.Fprintln": true, "fmt.Fprint": true, "fmt.Printf": true, "fmt.Println": true, "fmt.Print": true,
}

func resetModels() {
	builders = map[*value]*[]value{}
	syncMaps = map[*value]*omap{}
	mutexes = map[*value]*mutexState{}
	wgCount = map[*value]int{}
	wgClock = map[*value]vclock{}
	onceDone = map[*value]bool{}
	mapOrderMode = 0
	nativeSeq = 0
}

type nativeHandle struct{ obj any }

var nativeSeq int

func wrapNative(obj any) *value {
	var cell value = nativeHandle{obj}
	return &cell
}

func unwrapNative(v value) any {
	p, ok := v.(*value)
	if !ok || p == nil {
		rtpanic("invalid memory address or nil pointer dereference (nil native object)")
	}
	h, ok := (*p).(nativeHandle)
	if !ok {
		panic(fmt.Sprintf("native handle expected, got %T", *p))
	}
	return h.obj
}

// cstr demands a concrete string (forking over a finite-domain one).
func cstr(v value) string {
	v = deEnum(v)
	switch s := v.(type) {
	case string:
		return s
	case symstr:
		unsupported("symbolic string reaches a concrete-only model")
	}
	panic(fmt.Sprintf("cstr: %T", v))
}

func cbytes(v value) []byte {
	b := v.([]value)
	out := make([]byte, len(b))
	for i, e := range b {
		c, ok := e.(uint8)
		if !ok {
			unsupported("symbolic bytes reach a concrete-only model")
		}
		out[i] = c
	}
	return out
}

func fromBytes(b []byte) []value {
	out := make([]value, len(b))
	for i, c := range b {
		out[i] = c
	}
	return out
}

func fromStrings(ss []string) []value {
	out := make([]value, len(ss))
	for i, c := range ss {
		out[i] = c
	}
	return out
}

// mkError builds a real *errors.errorString through the interpreted errors.New.
func mkError(fr *frame, msg value) value {
	pkg := fr.i.prog.ImportedPackage("errors")
	if pkg == nil {
		panic(abortPath{KEngine, "package errors not loaded"})
	}
	return call(fr.i, fr, token.NoPos, pkg.Func("New"), []value{msg})
}

func nilError() value { return iface{} }

// ---------------------------------------------------------------- fmt

// stringOf renders an interpreter value the way %v / %s would, calling
// interpreted Error()/String() methods.  The result is a string, symstr or symenum.
func stringOf(fr *frame, v value, verb byte) value {
	switch x := v.(type) {
	case iface:
		if x.t == nil {
			if verb == 's' {
				return "%!s(<nil>)"
			}
			return "<nil>"
		}
		if verb != 'd' && verb != 'x' && verb != 'T' {
			for _, m := range []string{"Error", "String"} {
				if f := methodNoArgs(fr.i, x.t, m); f != nil {
					if p, ok := x.v.(*value); ok && p == nil {
						if _, isPtr := x.t.Underlying().(*types.Pointer); isPtr {
							return "<nil>"
						}
					}
					return call(fr.i, fr, token.NoPos, f, []value{x.v})
				}
			}
		}
		return stringOfTyped(fr, x.t, x.v, verb)
	}
	return stringOfTyped(fr, nil, v, verb)
}

func methodNoArgs(i *interpreter, t types.Type, name string) *ssa.Function {
	ms := i.prog.MethodSets.MethodSet(t)
	for k := 0; k < ms.Len(); k++ {
		sel := ms.At(k)
		if sel.Obj().Name() != name {
			continue
		}
		sig := sel.Type().(*types.Signature)
		if sig.Params().Len() != 0 || sig.Results().Len() != 1 {
			return nil
		}
		if b, ok := sig.Results().At(0).Type().Underlying().(*types.Basic); !ok || b.Kind() != types.String {
			return nil
		}
		return i.prog.MethodValue(sel)
	}
	return nil
}

func stringOfTyped(fr *frame, t types.Type, v value, verb byte) value {
	switch x := v.(type) {
	case string:
		if verb == 'q' {
			return strconv.Quote(x)
		}
		if verb == 'x' {
			return fmt.Sprintf("%x", x)
		}
		return x
	case symstr, symenum:
		if verb == 'q' {
			return binopSym(token.ADD, nil, binopSym(token.ADD, nil, toSymAny("\""), toSymAny(x)), toSymAny("\""))
		}
		return x
	case bool:
		return strconv.FormatBool(x)
	case int, int8, int16, int32, int64:
		if verb == 'x' {
			return strconv.FormatInt(asInt64(x), 16)
		}
		if verb == 'c' {
			return string(rune(asInt64(x)))
		}
		if verb == 'q' {
			return strconv.QuoteRune(rune(asInt64(x)))
		}
		return strconv.FormatInt(asInt64(x), 10)
	case uint, uint8, uint16, uint32, uint64, uintptr:
		if verb == 'x' {
			return strconv.FormatUint(asUint64(x), 16)
		}
		if verb == 'c' {
			return string(rune(asUint64(x)))
		}
		return strconv.FormatUint(asUint64(x), 10)
	case float64:
		if verb == 'f' {
			return strconv.FormatFloat(x, 'f', 6, 64)
		}
		return strconv.FormatFloat(x, 'g', -1, 64)
	case float32:
		return strconv.FormatFloat(float64(x), 'g', -1, 32)
	case Sym:
		X.Approx++
		return "‹symbolic›"
	case *value:
		if x == nil {
			return "<nil>"
		}
		return "0xc000000000"
	case []value:
		if t != nil {
			if sl, ok := t.Underlying().(*types.Slice); ok {
				if b, ok := sl.Elem().Underlying().(*types.Basic); ok && b.Kind() == types.Uint8 && (verb == 's' || verb == 'q') {
					return normStr(symstr(x))
				}
			}
		}
		var parts value = "["
		for i, e := range x {
			if i > 0 {
				parts = concatStr(parts, " ")
			}
			var et types.Type
			if t != nil {
				if sl, ok := t.Underlying().(*types.Slice); ok {
					et = sl.Elem()
				}
			}
			if _, ok := e.(iface); ok {
				parts = concatStr(parts, stringOf(fr, e, verb))
			} else if et != nil {
				parts = concatStr(parts, stringOf(fr, iface{et, e}, verb))
			} else {
				parts = concatStr(parts, stringOfTyped(fr, nil, e, verb))
			}
		}
		return concatStr(parts, "]")
	case structure:
		var parts value = "{"
		for i, e := range x {
			if i > 0 {
				parts = concatStr(parts, " ")
			}
			parts = concatStr(parts, stringOfTyped(fr, nil, e, verb))
		}
		return concatStr(parts, "}")
	case *omap:
		return "map[...]"
	case nil:
		return "<nil>"
	}
	return fmt.Sprintf("<%T>", v)
}

func toSymAny(v value) value { return v }

func concatStr(a, b value) value {
	as, aok := a.(string)
	bs, bok := b.(string)
	if aok && bok {
		return as + bs
	}
	a, b = deEnum(a), deEnum(b)
	as, aok = a.(string)
	bs, bok = b.(string)
	if aok && bok {
		return as + bs
	}
	return binopSym(token.ADD, nil, a, b)
}

// sprintf supports the verbs falco uses; flags and widths are honoured for
// concrete arguments by delegating the single directive to the host fmt.
func sprintf(fr *frame, format string, args []value) value {
	var out value = ""
	argi := 0
	for i := 0; i < len(format); i++ {
		c := format[i]
		if c != '%' {
			j := i
			for j < len(format) && format[j] != '%' {
				j++
			}
			out = concatStr(out, format[i:j])
			i = j - 1
			continue
		}
		// parse directive
		j := i + 1
		for j < len(format) && strings.IndexByte("+-# 0123456789.*[]", format[j]) >= 0 {
			j++
		}
		if j >= len(format) {
			out = concatStr(out, "%!(NOVERB)")
			break
		}
		verb := format[j]
		spec := format[i : j+1]
		i = j
		if verb == '%' {
			out = concatStr(out, "%")
			continue
		}
		if argi >= len(args) {
			out = concatStr(out, "%!"+string(verb)+"(MISSING)")
			continue
		}
		a := args[argi]
		argi++
		if verb == 'w' {
			verb = 'v'
			spec = spec[:len(spec)-1] + "v"
		}
		if verb == 'T' {
			if it, ok := a.(iface); ok && it.t != nil {
				out = concatStr(out, it.t.String())
			} else {
				out = concatStr(out, "<nil>")
			}
			continue
		}
		plain := len(spec) == 2
		s := stringOf(fr, a, verb)
		if plain {
			out = concatStr(out, s)
			continue
		}
		// flags / width / precision: only for concrete scalars
		var g any
		inner := a
		if it, ok := a.(iface); ok {
			inner = it.v
		}
		switch x := inner.(type) {
		case string, bool, int, int8, int16, int32, int64, uint, uint8, uint16, uint32, uint64, float32, float64:
			g = x
			if _, isStr := s.(string); isStr && (verb == 's' || verb == 'v') {
				if _, ok := x.(string); !ok {
					g = s // result of String()/Error()
				}
			}
		default:
			if str, ok := s.(string); ok {
				g = str
				if verb == 'd' || verb == 'f' || verb == 'x' {
					spec = spec[:len(spec)-1] + "s"
				}
			}
		}
		if g == nil {
			X.Approx++
			out = concatStr(out, s)
			continue
		}
		out = concatStr(out, fmt.Sprintf(spec, g))
	}
	for ; argi < len(args); argi++ {
		if argi == 0 || true {
			out = concatStr(out, "%!(EXTRA)")
			break
		}
	}
	return out
}

func sprint(fr *frame, args []value, ln bool) value {
	var out value = ""
	for i, a := range args {
		if i > 0 {
			_, aStr := unIface(args[i-1]).(string)
			_, bStr := unIface(a).(string)
			if ln || (!aStr && !bStr) {
				out = concatStr(out, " ")
			}
		}
		out = concatStr(out, stringOf(fr, a, 'v'))
	}
	if ln {
		out = concatStr(out, "\n")
	}
	return out
}

func unIface(v value) value {
	if it, ok := v.(iface); ok {
		return it.v
	}
	return v
}

// wrapError builds a *fmt.wrapError so that errors.Unwrap/Is/As work.
func wrapError(fr *frame, msg value, inner value) value {
	pkg := fr.i.prog.ImportedPackage("fmt")
	if pkg == nil || pkg.Type("wrapError") == nil {
		return mkError(fr, msg)
	}
	t := pkg.Type("wrapError").Type()
	var cell value = structure{msg, inner}
	return iface{t: types.NewPointer(t), v: &cell}
}

func bld(recv value) *[]value {
	p := recv.(*value)
	if p == nil {
		rtpanic("invalid memory address or nil pointer dereference")
	}
	b := builders[p]
	if b == nil {
		b = &[]value{}
		builders[p] = b
	}
	return b
}

func strBytes(v value) []value {
	switch s := deEnum(v).(type) {
	case string:
		return []value(toSymstr(s))
	case symstr:
		return []value(s)
	}
	panic(fmt.Sprintf("strBytes %T", v))
}

func errorsNewMsg(fr *frame, s string) value { return mkError(fr, s) }

func init() {
	externals["fmt.Sprintf"] = func(fr *frame, args []value) value {
		return sprintf(fr, cstr(args[0]), args[1].([]value))
	}
	externals["fmt.Errorf"] = func(fr *frame, args []value) value {
		format := cstr(args[0])
		va := args[1].([]value)
		msg := sprintf(fr, format, va)
		if k := strings.Index(format, "%w"); k >= 0 {
			// which argument does %w take?
			n := 0
			for i := 0; i < k; i++ {
				if format[i] == '%' {
					if i+1 < len(format) && format[i+1] == '%' {
						i++
						continue
					}
					n++
				}
			}
			if n < len(va) {
				if it, ok := va[n].(iface); ok && it.t != nil {
					return wrapError(fr, msg, it)
				}
			}
		}
		return mkError(fr, msg)
	}
	externals["fmt.Sprint"] = func(fr *frame, args []value) value { return sprint(fr, args[0].([]value), false) }
	externals["fmt.Sprintln"] = func(fr *frame, args []value) value { return sprint(fr, args[0].([]value), true) }
	for _, n := range []string{"fmt.Fprintln", "fmt.Fprintf", "fmt.Fprint", "fmt.Println", "fmt.Printf", "fmt.Print"} {
		externals[n] = func(fr *frame, args []value) value { return tuple{0, nilError()} }
	}
	externals["fmt.Fprintf"] = func(fr *frame, args []value) value {
		return writeTo(fr, args[0], sprintf(fr, cstr(args[1]), args[2].([]value)))
	}
	externals["fmt.Fprint"] = func(fr *frame, args []value) value {
		return writeTo(fr, args[0], sprint(fr, args[1].([]value), false))
	}
	externals["fmt.Fprintln"] = func(fr *frame, args []value) value {
		return writeTo(fr, args[0], sprint(fr, args[1].([]value), true))
	}

	// strings.Builder (its real body uses unsafe and a self-pointer check)
	externals["(*strings.Builder).WriteString"] = func(fr *frame, args []value) value {
		s := strBytes(args[1])
		b := bld(args[0])
		*b = append(*b, s...)
		return tuple{len(s), nilError()}
	}
	externals["(*strings.Builder).Write"] = func(fr *frame, args []value) value {
		s := args[1].([]value)
		b := bld(args[0])
		*b = append(*b, s...)
		return tuple{len(s), nilError()}
	}
	externals["(*strings.Builder).WriteByte"] = func(fr *frame, args []value) value {
		b := bld(args[0])
		*b = append(*b, args[1])
		return nilError()
	}
	externals["(*strings.Builder).WriteRune"] = func(fr *frame, args []value) value {
		s := strBytes(conv(types.Typ[types.String], types.Typ[types.Rune], args[1]))
		b := bld(args[0])
		*b = append(*b, s...)
		return tuple{len(s), nilError()}
	}
	externals["(*strings.Builder).String"] = func(fr *frame, args []value) value {
		return normStr(symstr(*bld(args[0])))
	}
	externals["(*strings.Builder).Len"] = func(fr *frame, args []value) value { return len(*bld(args[0])) }
	externals["(*strings.Builder).Cap"] = func(fr *frame, args []value) value { return cap(*bld(args[0])) }
	externals["(*strings.Builder).Grow"] = func(fr *frame, args []value) value {
		if n, ok := args[1].(int); ok && n < 0 {
			panic(targetPanic{iface{types.Typ[types.String], "strings.Builder.Grow: negative count"}})
		}
		return nil
	}
	externals["(*strings.Builder).Reset"] = func(fr *frame, args []value) value {
		*bld(args[0]) = nil
		return nil
	}

	// internal/bytealg (assembly)
	idxByte := func(s []value, c value) value {
		for i, b := range s {
			if decideCond(binop(token.EQL, types.Typ[types.Uint8], b, c)) {
				return i
			}
		}
		return -1
	}
	externals["internal/bytealg.IndexByteString"] = func(fr *frame, args []value) value {
		return idxByte(strBytes(args[0]), args[1])
	}
	externals["internal/bytealg.IndexByte"] = func(fr *frame, args []value) value {
		return idxByte(args[0].([]value), args[1])
	}
	externals["internal/bytealg.LastIndexByteString"] = func(fr *frame, args []value) value {
		s := strBytes(args[0])
		for i := len(s) - 1; i >= 0; i-- {
			if decideCond(binop(token.EQL, types.Typ[types.Uint8], s[i], args[1])) {
				return i
			}
		}
		return -1
	}
	externals["internal/bytealg.LastIndexByte"] = func(fr *frame, args []value) value {
		s := args[0].([]value)
		for i := len(s) - 1; i >= 0; i-- {
			if decideCond(binop(token.EQL, types.Typ[types.Uint8], s[i], args[1])) {
				return i
			}
		}
		return -1
	}
	externals["bytes.IndexByte"] = externals["internal/bytealg.IndexByte"]
	externals["strings.IndexByte"] = externals["internal/bytealg.IndexByteString"]
	count := func(s []value, c value) value {
		n := 0
		for _, b := range s {
			if decideCond(binop(token.EQL, types.Typ[types.Uint8], b, c)) {
				n++
			}
		}
		return n
	}
	externals["internal/bytealg.CountString"] = func(fr *frame, args []value) value { return count(strBytes(args[0]), args[1]) }
	externals["internal/bytealg.Count"] = func(fr *frame, args []value) value { return count(args[0].([]value), args[1]) }
	eqBytes := func(a, b []value) value {
		if len(a) != len(b) {
			return false
		}
		for i := range a {
			if !decideCond(binop(token.EQL, types.Typ[types.Uint8], a[i], b[i])) {
				return false
			}
		}
		return true
	}
	externals["bytes.Equal"] = func(fr *frame, args []value) value { return eqBytes(args[0].([]value), args[1].([]value)) }
	externals["internal/bytealg.Equal"] = externals["bytes.Equal"]
	index := func(s, sep []value) value {
		for i := 0; i+len(sep) <= len(s); i++ {
			if eqBytes(s[i:i+len(sep)], sep) == true {
				return i
			}
		}
		return -1
	}
	externals["internal/bytealg.IndexString"] = func(fr *frame, args []value) value {
		return index(strBytes(args[0]), strBytes(args[1]))
	}
	externals["internal/bytealg.Index"] = func(fr *frame, args []value) value {
		return index(args[0].([]value), args[1].([]value))
	}
	externals["strings.Index"] = externals["internal/bytealg.IndexString"]
	externals["internal/bytealg.Compare"] = func(fr *frame, args []value) value {
		return compareBytes(args[0].([]value), args[1].([]value))
	}
	externals["internal/bytealg.CompareString"] = func(fr *frame, args []value) value {
		return compareBytes(strBytes(args[0]), strBytes(args[1]))
	}
	externals["strings.Compare"] = externals["internal/bytealg.CompareString"]
	externals["internal/stringslite.Index"] = externals["internal/bytealg.IndexString"]
	externals["internal/bytealg.MakeNoZero"] = func(fr *frame, args []value) value {
		n := args[0].(int)
		s := make([]value, n)
		for i := range s {
			s[i] = uint8(0)
		}
		return s
	}
	externals["internal/bytealg.HashStr[string]"] = func(fr *frame, args []value) value { return uint32(0) }
	externals["strings.Clone"] = func(fr *frame, args []value) value { return args[0] }
	externals["internal/stringslite.Clone"] = externals["strings.Clone"]
	externals["unique.Make[string]"] = func(fr *frame, args []value) value { unsupported("unique.Make"); return nil }

	// sync.Pool, sync.Map
	externals["(*sync.Pool).Get"] = func(fr *frame, args []value) value {
		p := (*args[0].(*value)).(structure)
		newf := p[len(p)-1] // field New is the last field of sync.Pool
		if f, ok := newf.(*ssa.Function); ok && f == nil {
			return iface{}
		}
		return call(fr.i, fr, token.NoPos, newf, nil)
	}
	externals["(*sync.Pool).Put"] = func(fr *frame, args []value) value { return nil }
	smap := func(p value, create bool) *omap {
		k := p.(*value)
		m := syncMaps[k]
		if m == nil && create {
			m = newOmap(types.NewInterfaceType(nil, nil))
			syncMaps[k] = m
		}
		return m
	}
	externals["(*sync.Map).Store"] = func(fr *frame, args []value) value {
		smap(args[0], true).set(args[1], args[2])
		return nil
	}
	externals["(*sync.Map).Load"] = func(fr *frame, args []value) value {
		v, ok := smap(args[0], false).get(args[1])
		if !ok {
			return tuple{iface{}, false}
		}
		return tuple{v, true}
	}
	externals["(*sync.Map).LoadOrStore"] = func(fr *frame, args []value) value {
		m := smap(args[0], true)
		if v, ok := m.get(args[1]); ok {
			return tuple{v, true}
		}
		m.set(args[1], args[2])
		return tuple{args[2], false}
	}
	externals["(*sync.Map).Swap"] = func(fr *frame, args []value) value {
		mm := smap(args[0], true)
		prev, ok := mm.get(args[1])
		mm.set(args[1], args[2])
		if !ok {
			return tuple{iface{}, false}
		}
		return tuple{prev, true}
	}
	externals["(*sync.Map).LoadAndDelete"] = func(fr *frame, args []value) value {
		mm := smap(args[0], false)
		prev, ok := mm.get(args[1])
		if !ok {
			return tuple{iface{}, false}
		}
		mm.del(args[1])
		return tuple{prev, true}
	}
	externals["(*sync.Map).Clear"] = func(fr *frame, args []value) value {
		smap(args[0], false).clear()
		return nil
	}
	externals["(*sync.Map).Delete"] = func(fr *frame, args []value) value {
		smap(args[0], false).del(args[1])
		return nil
	}
	externals["(*sync.Map).Range"] = func(fr *frame, args []value) value {
		m := smap(args[0], false)
		if m == nil {
			return nil
		}
		it := m.iter()
		for {
			t := it.next()
			if !t[0].(bool) {
				return nil
			}
			if !decideCond(call(fr.i, fr, token.NoPos, args[1], []value{t[1], t[2]})) {
				return nil
			}
		}
	}

	// atomics: the baton scheduler makes every model atomic by construction
	for _, w := range []string{"Int32", "Int64", "Uint32", "Uint64"} {
		w := w
		externals["sync/atomic.Add"+w] = func(fr *frame, args []value) value {
			p := derefNil(args[0])
			t := fr.fn.Signature.Params().At(1).Type()
			*p = binop(token.ADD, t, *p, args[1])
			return *p
		}
		externals["sync/atomic.Load"+w] = func(fr *frame, args []value) value { return *derefNil(args[0]) }
		externals["sync/atomic.Store"+w] = func(fr *frame, args []value) value { *derefNil(args[0]) = args[1]; return nil }
		externals["sync/atomic.CompareAndSwap"+w] = func(fr *frame, args []value) value {
			p := derefNil(args[0])
			t := fr.fn.Signature.Params().At(1).Type()
			if decideCond(eqValue(t, *p, args[1])) {
				*p = args[2]
				return true
			}
			return false
		}
	}

	// text/template: construction only (package initialisers build templates); executing one is unsupported
	type opaqueTemplate struct{}
	tpl := func(fr *frame, args []value) value { return wrapNative(&opaqueTemplate{}) }
	self := func(fr *frame, args []value) value { return args[0] }
	externals["text/template.New"] = tpl
	externals["(*text/template.Template).New"] = tpl
	externals["(*text/template.Template).Funcs"] = self
	externals["(*text/template.Template).Option"] = self
	externals["(*text/template.Template).Delims"] = self
	externals["(*text/template.Template).Parse"] = func(fr *frame, args []value) value { return tuple{args[0], nilError()} }
	externals["text/template.Must"] = self

	// unique.Make[T]: canonical handle per (concrete) value; Handle.Value is interpreted
	uniq := map[string]*value{}
	externals["unique.Make"] = func(fr *frame, args []value) value {
		key := fmt.Sprintf("%s|%#v", fr.fn.String(), args[0])
		p := uniq[key]
		if p == nil {
			v := load(fr.fn.Signature.Params().At(0).Type(), &args[0])
			p = &v
			uniq[key] = p
		}
		return structure{p}
	}

	// regexp through the host (concrete arguments only)
	externals["regexp.MustCompile"] = func(fr *frame, args []value) value {
		re, err := regexp.Compile(cstr(args[0]))
		if err != nil {
			panic(targetPanic{iface{types.Typ[types.String], "regexp: Compile: " + err.Error()}})
		}
		return wrapNative(re)
	}
	externals["regexp.Compile"] = func(fr *frame, args []value) value {
		re, err := regexp.Compile(cstr(args[0]))
		if err != nil {
			return tuple{(*value)(nil), mkError(fr, err.Error())}
		}
		return tuple{wrapNative(re), nilError()}
	}
	re := func(v value) *regexp.Regexp { return unwrapNative(v).(*regexp.Regexp) }
	externals["(*regexp.Regexp).ReplaceAllString"] = func(fr *frame, args []value) value {
		return re(args[0]).ReplaceAllString(cstr(args[1]), cstr(args[2]))
	}
	externals["(*regexp.Regexp).MatchString"] = func(fr *frame, args []value) value {
		return re(args[0]).MatchString(cstr(args[1]))
	}
	externals["(*regexp.Regexp).Match"] = func(fr *frame, args []value) value {
		return re(args[0]).Match(cbytes(args[1]))
	}
	externals["(*regexp.Regexp).FindStringSubmatch"] = func(fr *frame, args []value) value {
		m := re(args[0]).FindStringSubmatch(cstr(args[1]))
		if m == nil {
			return []value(nil)
		}
		return fromStrings(m)
	}
	externals["(*regexp.Regexp).FindAllStringSubmatch"] = func(fr *frame, args []value) value {
		ms := re(args[0]).FindAllStringSubmatch(cstr(args[1]), args[2].(int))
		if ms == nil {
			return []value(nil)
		}
		out := make([]value, len(ms))
		for i, m := range ms {
			out[i] = fromStrings(m)
		}
		return out
	}
	externals["(*regexp.Regexp).FindString"] = func(fr *frame, args []value) value {
		return re(args[0]).FindString(cstr(args[1]))
	}
	externals["(*regexp.Regexp).FindStringIndex"] = func(fr *frame, args []value) value {
		m := re(args[0]).FindStringIndex(cstr(args[1]))
		if m == nil {
			return []value(nil)
		}
		return []value{m[0], m[1]}
	}
	externals["(*regexp.Regexp).Split"] = func(fr *frame, args []value) value {
		return fromStrings(re(args[0]).Split(cstr(args[1]), args[2].(int)))
	}
	externals["(*regexp.Regexp).String"] = func(fr *frame, args []value) value { return re(args[0]).String() }
	externals["regexp.MatchString"] = func(fr *frame, args []value) value {
		ok, err := regexp.MatchString(cstr(args[0]), cstr(args[1]))
		if err != nil {
			return tuple{false, mkError(fr, err.Error())}
		}
		return tuple{ok, nilError()}
	}
	externals["regexp.QuoteMeta"] = func(fr *frame, args []value) value { return regexp.QuoteMeta(cstr(args[0])) }

	// sorting (reflection-based swappers in the real thing)
	insertion := func(fr *frame, s []value, less func(i, j int) bool) {
		for i := 1; i < len(s); i++ {
			for j := i; j > 0 && less(j, j-1); j-- {
				s[j], s[j-1] = s[j-1], s[j]
			}
		}
	}
	sortSlice := func(fr *frame, args []value) value {
		s := args[0].(iface).v.([]value)
		lessFn := args[1]
		insertion(fr, s, func(i, j int) bool {
			return decideCond(call(fr.i, fr, token.NoPos, lessFn, []value{i, j}))
		})
		return nil
	}
	externals["sort.Slice"] = sortSlice
	externals["sort.SliceStable"] = sortSlice
	externals["sort.Strings"] = func(fr *frame, args []value) value {
		s := args[0].([]value)
		insertion(fr, s, func(i, j int) bool { return decideCond(lessStr(s[i], s[j])) })
		return nil
	}
	externals["sort.Ints"] = func(fr *frame, args []value) value {
		s := args[0].([]value)
		insertion(fr, s, func(i, j int) bool { return decideCond(binop(token.LSS, types.Typ[types.Int], s[i], s[j])) })
		return nil
	}
	externals["slices.Sort[[]string,string]"] = externals["sort.Strings"]
	externals["slices.Sort[[]int,int]"] = externals["sort.Ints"]

	// time and randomness: fixed, documented values unless a harness intercepts them
	externals["time.Now"] = func(fr *frame, args []value) value {
		// wall: hasMonotonic=0, ext = seconds since year 1 (2026-01-01T00:00:00Z)
		var loc *value
		return structure{uint64(0), int64(63902908800), loc}
	}
	externals["time.now"] = func(fr *frame, args []value) value {
		return tuple{int64(1767225600), int32(0), int64(1)}
	}
	externals["time.runtimeNano"] = func(fr *frame, args []value) value { return int64(1) }
	externals["time.runtimeNow"] = func(fr *frame, args []value) value { return tuple{int64(1767225600), int32(0), int64(1)} }
	externals["time.Sleep"] = func(fr *frame, args []value) value { return nil }
	externals["time.After"] = func(fr *frame, args []value) value { return &mchan{never: true} }
	// math/rand: fixed outputs (the properties do not depend on the numbers drawn), the documented argument panics kept
	randN := func(name string, t types.Type, zero value) func(fr *frame, args []value) value {
		return func(fr *frame, args []value) value {
			n := args[len(args)-1]
			if decideCond(binop(token.LEQ, t, n, zero)) {
				panic(targetPanic{iface{types.Typ[types.String], "invalid argument to " + name}})
			}
			return zero
		}
	}
	externals["math/rand.Int63n"] = randN("Int63n", types.Typ[types.Int64], int64(0))
	externals["math/rand.Int31n"] = randN("Int31n", types.Typ[types.Int32], int32(0))
	externals["(*math/rand.Rand).Int63n"] = randN("Int63n", types.Typ[types.Int64], int64(0))
	externals["(*math/rand.Rand).Intn"] = randN("Intn", types.Typ[types.Int], 0)
	externals["(*math/rand.Rand).Int63"] = func(fr *frame, args []value) value { return int64(4) }
	externals["(*math/rand.Rand).Float64"] = func(fr *frame, args []value) value { return float64(0.25) }
	type opaqueRand struct{}
	externals["math/rand.New"] = func(fr *frame, args []value) value { return wrapNative(&opaqueRand{}) }
	externals["math/rand.NewSource"] = func(fr *frame, args []value) value { return iface{} }
	externals["math/rand.Int63"] = func(fr *frame, args []value) value { return int64(4) }
	externals["math/rand.Intn"] = randN("Intn", types.Typ[types.Int], 0)
	externals["math/rand.Int"] = func(fr *frame, args []value) value { return 4 }
	externals["math/rand.Float64"] = func(fr *frame, args []value) value { return float64(0.25) }
	externals["math/rand.Seed"] = func(fr *frame, args []value) value { return nil }
	externals["runtime.Callers"] = func(fr *frame, args []value) value { return 0 }
	externals["runtime.Caller"] = func(fr *frame, args []value) value { return tuple{uintptr(0), "", 0, false} }
	externals["runtime.KeepAlive"] = func(fr *frame, args []value) value { return nil }
	externals["runtime.SetFinalizer"] = func(fr *frame, args []value) value { return nil }
	externals["(*internal/godebug.Setting).Value"] = func(fr *frame, args []value) value { return "" }
	externals["(*internal/godebug.Setting).IncNonDefault"] = func(fr *frame, args []value) value { return nil }
	externals["(*internal/godebug.Setting).Name"] = func(fr *frame, args []value) value { return "" }
	externals["os.Getenv"] = func(fr *frame, args []value) value { return "" }
	externals["os.LookupEnv"] = func(fr *frame, args []value) value { return tuple{"", false} }

	// strconv/math leaves that use unsafe or assembly
	externals["math.Float64bits"] = func(fr *frame, args []value) value {
		switch x := args[0].(type) {
		case float64:
			return math.Float64bits(x)
		case Sym:
			return floatBits(x)
		}
		panic("Float64bits")
	}
	externals["math.Float64frombits"] = func(fr *frame, args []value) value {
		switch x := args[0].(type) {
		case uint64:
			return math.Float64frombits(x)
		case Sym:
			return X.name(Sym{T: "((_ to_fp 11 53) " + x.T + ")", W: 64, F: true})
		}
		panic("Float64frombits")
	}
	externals["math.Float32bits"] = func(fr *frame, args []value) value {
		if x, ok := args[0].(float32); ok {
			return math.Float32bits(x)
		}
		unsupported("Float32bits of a symbolic value")
		return nil
	}
	externals["math.Float32frombits"] = func(fr *frame, args []value) value {
		if x, ok := args[0].(uint32); ok {
			return math.Float32frombits(x)
		}
		unsupported("Float32frombits of a symbolic value")
		return nil
	}
	fpPred := func(name, op string, neg bool) {
		externals[name] = func(fr *frame, args []value) value {
			switch x := args[0].(type) {
			case float64:
				switch op {
				case "fp.isNaN":
					return math.IsNaN(x)
				}
			case Sym:
				return Sym{T: "(" + op + " " + x.T + ")"}
			}
			panic(name)
		}
	}
	fpPred("math.IsNaN", "fp.isNaN", false)
	externals["math.IsInf"] = func(fr *frame, args []value) value {
		sign := args[1].(int)
		switch x := args[0].(type) {
		case float64:
			return math.IsInf(x, sign)
		case Sym:
			switch {
			case sign > 0:
				return Sym{T: "(and (fp.isInfinite " + x.T + ") (fp.isPositive " + x.T + "))"}
			case sign < 0:
				return Sym{T: "(and (fp.isInfinite " + x.T + ") (fp.isNegative " + x.T + "))"}
			}
			return Sym{T: "(fp.isInfinite " + x.T + ")"}
		}
		panic("IsInf")
	}
	externals["math.Inf"] = func(fr *frame, args []value) value { return math.Inf(args[0].(int)) }
	externals["math.NaN"] = func(fr *frame, args []value) value { return math.NaN() }
	unaryFP := func(name string, f func(float64) float64, smt string) {
		externals[name] = func(fr *frame, args []value) value {
			switch x := args[0].(type) {
			case float64:
				return f(x)
			case Sym:
				if smt != "" {
					return X.name(Sym{T: fmt.Sprintf(smt, x.T), W: 64, F: true})
				}
				// uninterpreted: a fresh float per call (sound for no-panic claims only)
				X.Approx++
				nativeSeq++
				n := fmt.Sprintf("uf_%d", nativeSeq)
				X.declare(n, 64)
				return Sym{T: "((_ to_fp 11 53) " + n + ")", W: 64, F: true}
			}
			panic(name)
		}
	}
	unaryFP("math.Abs", math.Abs, "(fp.abs %s)")
	unaryFP("math.Sqrt", math.Sqrt, "(fp.sqrt RNE %s)")
	unaryFP("math.sqrt", math.Sqrt, "(fp.sqrt RNE %s)")
	unaryFP("math.Floor", math.Floor, "(fp.roundToIntegral RTN %s)")
	unaryFP("math.Ceil", math.Ceil, "(fp.roundToIntegral RTP %s)")
	unaryFP("math.Trunc", math.Trunc, "(fp.roundToIntegral RTZ %s)")
	unaryFP("math.floor", math.Floor, "(fp.roundToIntegral RTN %s)")
	unaryFP("math.ceil", math.Ceil, "(fp.roundToIntegral RTP %s)")
	unaryFP("math.trunc", math.Trunc, "(fp.roundToIntegral RTZ %s)")
	unaryFP("math.RoundToEven", math.RoundToEven, "(fp.roundToIntegral RNE %s)")
	unaryFP("math.Round", math.Round, "(fp.roundToIntegral RNA %s)")
	for n, f := range map[string]func(float64) float64{"Exp": math.Exp, "Exp2": math.Exp2, "Log": math.Log, "Log2": math.Log2, "Log10": math.Log10,
		"Sin": math.Sin, "Cos": math.Cos, "Tan": math.Tan, "Asin": math.Asin, "Acos": math.Acos, "Atan": math.Atan,
		"Sinh": math.Sinh, "Cosh": math.Cosh, "Tanh": math.Tanh, "Asinh": math.Asinh, "Acosh": math.Acosh, "Atanh": math.Atanh, "Cbrt": math.Cbrt, "Expm1": math.Expm1, "Log1p": math.Log1p} {
		unaryFP("math."+n, f, "")
	}
	binFP := func(name string, f func(a, b float64) float64) {
		externals[name] = func(fr *frame, args []value) value {
			a, aok := args[0].(float64)
			b, bok := args[1].(float64)
			if aok && bok {
				return f(a, b)
			}
			X.Approx++
			nativeSeq++
			n := fmt.Sprintf("uf_%d", nativeSeq)
			X.declare(n, 64)
			return Sym{T: "((_ to_fp 11 53) " + n + ")", W: 64, F: true}
		}
	}
	binFP("math.Pow", math.Pow)
	binFP("math.Atan2", math.Atan2)
	binFP("math.Mod", math.Mod)
	binFP("math.Hypot", math.Hypot)
	externals["strconv.FormatFloat"] = func(fr *frame, args []value) value {
		f, ok := args[0].(float64)
		if !ok {
			X.Approx++
			return "‹symbolic float›"
		}
		return strconv.FormatFloat(f, args[1].(byte), args[2].(int), args[3].(int))
	}
	externals["strconv.ParseFloat"] = func(fr *frame, args []value) value {
		f, err := strconv.ParseFloat(cstr(args[0]), args[1].(int))
		if err != nil {
			return tuple{f, mkError(fr, err.Error())}
		}
		return tuple{f, nilError()}
	}
	externals["time.ParseDuration"] = func(fr *frame, args []value) value {
		d, err := time.ParseDuration(cstr(args[0]))
		if err != nil {
			return tuple{int64(0), mkError(fr, err.Error())}
		}
		return tuple{int64(d), nilError()}
	}
	// net: parsing / printing of addresses goes through the host for concrete arguments
	ipVal := func(ip net.IP) value {
		if ip == nil {
			return []value(nil)
		}
		return fromBytes([]byte(ip))
	}
	externals["net.ParseIP"] = func(fr *frame, args []value) value { return ipVal(net.ParseIP(cstr(args[0]))) }
	externals["(net.IP).String"] = func(fr *frame, args []value) value {
		b := args[0].([]value)
		for _, e := range b {
			if _, ok := e.(uint8); !ok {
				X.Approx++
				return "‹symbolic ip›"
			}
		}
		return net.IP(cbytes(args[0])).String()
	}
	externals["net.ParseCIDR"] = func(fr *frame, args []value) value {
		ip, n, err := net.ParseCIDR(cstr(args[0]))
		if err != nil {
			return tuple{[]value(nil), (*value)(nil), mkError(fr, err.Error())}
		}
		var cell value = structure{ipVal(n.IP), fromBytes([]byte(n.Mask))}
		return tuple{ipVal(ip), &cell, nilError()}
	}
	_ = sort.Strings
}

func floatBits(x Sym) value {
	// a fresh bit-vector whose float reading is x (NaN payloads are unconstrained)
	nativeSeq++
	n := fmt.Sprintf("fb_%d", nativeSeq)
	X.declare(n, 64)
	if !X.IsConcrete {
		X.z.send(fmt.Sprintf("(assert (= ((_ to_fp 11 53) %s) %s))", n, x.T))
	}
	return Sym{T: n, W: 64}
}

func lessStr(a, b value) value {
	as, aok := a.(string)
	bs, bok := b.(string)
	if aok && bok {
		return as < bs
	}
	c := compareBytes(strBytes(a), strBytes(b))
	return c.(int) < 0
}

// compareBytes is a three-way comparison, forking byte by byte when symbolic.
func compareBytes(a, b []value) value {
	n := len(a)
	if len(b) < n {
		n = len(b)
	}
	for i := 0; i < n; i++ {
		if decideCond(binop(token.EQL, types.Typ[types.Uint8], a[i], b[i])) {
			continue
		}
		if decideCond(binop(token.LSS, types.Typ[types.Uint8], a[i], b[i])) {
			return -1
		}
		return 1
	}
	switch {
	case len(a) < len(b):
		return -1
	case len(a) > len(b):
		return 1
	}
	return 0
}

// writeTo implements fmt.Fprint* onto an io.Writer value: interpreted
// writers (bytes.Buffer, bufio.Writer, harness writers) receive the bytes,
// os.Stdout/os.Stderr and nil writers are sinks.
func writeTo(fr *frame, w value, s value) value {
	it, ok := w.(iface)
	if !ok || it.t == nil {
		rtpanic("invalid memory address or nil pointer dereference (Fprint to nil writer)")
	}
	if strings.HasSuffix(it.t.String(), "os.File") {
		return tuple{len(strBytes(s)), nilError()}
	}
	ms := fr.i.prog.MethodSets.MethodSet(it.t)
	for k := 0; k < ms.Len(); k++ {
		if ms.At(k).Obj().Name() == "Write" {
			f := fr.i.prog.MethodValue(ms.At(k))
			return call(fr.i, fr, token.NoPos, f, []value{it.v, append([]value(nil), strBytes(s)...)})
		}
	}
	panic("writeTo: no Write method on " + it.t.String())
}

// symstrIter ranges over a string with symbolic bytes by running the
// interpreted utf8.DecodeRuneInString on the remaining suffix.
type symstrIter struct {
	s symstr
	i int
}

func (it *symstrIter) next() tuple {
	if it.i >= len(it.s) {
		return tuple{false, nil, nil}
	}
	pkg := curInterp.prog.ImportedPackage("unicode/utf8")
	if pkg == nil {
		unsupported("range over a symbolic string needs unicode/utf8 in the program")
	}
	hi := it.i + 4
	if hi > len(it.s) {
		hi = len(it.s)
	}
	r := call(curInterp, nil, token.NoPos, pkg.Func("DecodeRuneInString"), []value{normStr(it.s[it.i:hi])}).(tuple)
	at := it.i
	it.i += r[1].(int)
	return tuple{true, at, r[0]}
}
