package interp

// Engine side of package nondet: every function is intercepted by name.

import (
	"fmt"
	"go/types"
	"math"
	"os"
	"strconv"
	"strings"
)

const ndPrefix = "github.com/ysugimoto/falco/v2/zz_verif/nondet."

func strSlice(v value) []string {
	var out []string
	for _, e := range v.([]value) {
		out = append(out, e.(string))
	}
	return out
}

// scalar returns the value of a named nondet constant: a term, or in a
// concrete replay the model's value.
func ndScalar(name string, w int, signed bool) value {
	X.declare(name, w)
	if X.IsConcrete {
		u := X.Concrete[name]
		switch {
		case w == 8:
			return uint8(u)
		case w == 32 && signed:
			return int32(u)
		case w == 64 && signed:
			return int64(u)
		case w == 64:
			return u
		}
		panic("ndScalar width")
	}
	return Sym{T: name, W: w, Signed: signed}
}

func ndName(v value) string {
	s, ok := v.(string)
	if !ok {
		panic(abortPath{KEngine, "nondet name must be a concrete string"})
	}
	for _, c := range s {
		if !(c == '_' || c >= '0' && c <= '9' || c >= 'a' && c <= 'z' || c >= 'A' && c <= 'Z') {
			panic(abortPath{KEngine, "nondet name must be an identifier: " + s})
		}
	}
	return s
}

func init() {
	nd := func(n string, f externalFn) { externals[ndPrefix+n] = f }
	nd("Native", func(fr *frame, args []value) value { return false })
	nd("Param", func(fr *frame, args []value) value {
		v, ok := X.Params[args[0].(string)]
		if !ok {
			panic(abortPath{KEngine, "missing parameter " + args[0].(string)})
		}
		return v
	})
	nd("ParamOr", func(fr *frame, args []value) value {
		if v, ok := X.Params[args[0].(string)]; ok {
			return v
		}
		return args[1]
	})
	nd("Byte", func(fr *frame, args []value) value { return ndScalar(ndName(args[0]), 8, false) })
	nd("Int64", func(fr *frame, args []value) value { return ndScalar(ndName(args[0]), 64, true) })
	nd("Uint64", func(fr *frame, args []value) value { return ndScalar(ndName(args[0]), 64, false) })
	nd("Int32", func(fr *frame, args []value) value { return ndScalar(ndName(args[0]), 32, true) })
	nd("Int", func(fr *frame, args []value) value {
		v := ndScalar(ndName(args[0]), 64, true)
		if c, ok := v.(int64); ok {
			return int(c)
		}
		return v
	})
	nd("Float64", func(fr *frame, args []value) value {
		name := ndName(args[0])
		X.declare(name, 64)
		if X.IsConcrete {
			return math.Float64frombits(X.Concrete[name])
		}
		return Sym{T: "((_ to_fp 11 53) " + name + ")", W: 64, F: true}
	})
	nd("Bool", func(fr *frame, args []value) value {
		name := ndName(args[0])
		X.declare(name, 1)
		if X.IsConcrete {
			return X.Concrete[name]&1 == 1
		}
		return Sym{T: "(= " + name + " #b1)"}
	})
	nd("IntRange", func(fr *frame, args []value) value {
		name := ndName(args[0])
		lo, hi := int64(args[1].(int)), int64(args[2].(int))
		first := X.decls[name] == 0
		X.declare(name, 64)
		if X.IsConcrete {
			return int(int64(X.Concrete[name]))
		}
		if first {
			X.z.send(fmt.Sprintf("(assert (and (bvsge %s %s) (bvsle %s %s)))", name, bv(uint64(lo), 64), name, bv(uint64(hi), 64)))
		}
		return int(X.ChooseValue(Sym{T: name, W: 64, Signed: true}, lo, hi))
	})
	nd("Choice", func(fr *frame, args []value) value {
		name := ndName(args[0])
		n := args[1].(int)
		first := X.decls[name] == 0
		X.declare(name, 64)
		if X.IsConcrete {
			return int(X.Concrete[name])
		}
		if first {
			X.z.send(fmt.Sprintf("(assert (bvult %s %s))", name, bv(uint64(n), 64)))
		}
		return int(X.ChooseValue(Sym{T: name, W: 64}, 0, int64(n-1)))
	})
	bytesOf := func(name string, n int) []value {
		b := make([]value, n)
		for i := range b {
			b[i] = ndScalar(name+"_"+strconv.Itoa(i), 8, false)
		}
		return b
	}
	nd("Bytes", func(fr *frame, args []value) value { return bytesOf(ndName(args[0]), args[1].(int)) })
	nd("StringIn", func(fr *frame, args []value) value {
		name, n := ndName(args[0]), args[1].(int)
		lo, hi := args[2].(uint8), args[3].(uint8)
		b := make([]value, n)
		for i := range b {
			bn := name + "_" + strconv.Itoa(i)
			first := X.decls[bn] == 0
			b[i] = ndScalar(bn, 8, false)
			if first && !X.IsConcrete {
				X.z.send(fmt.Sprintf("(assert (and (bvuge %s %s) (bvule %s %s)))", bn, bv(uint64(lo), 8), bn, bv(uint64(hi), 8)))
			}
		}
		return normStr(symstr(b))
	})
	nd("String", func(fr *frame, args []value) value {
		return normStr(symstr(bytesOf(ndName(args[0]), args[1].(int))))
	})
	enumIdx := func(name string, n int) value {
		first := X.decls[name] == 0
		X.declare(name, 8)
		if X.IsConcrete {
			return X.Concrete[name]
		}
		if first {
			X.z.send(fmt.Sprintf("(assert (bvult %s %s))", name, bv(uint64(n), 8)))
		}
		return Sym{T: name, W: 8}
	}
	nd("Enum", func(fr *frame, args []value) value {
		dom := strSlice(args[1])
		if len(dom) == 0 || len(dom) > 255 {
			panic(abortPath{KEngine, "enum domain size"})
		}
		idx := enumIdx(ndName(args[0]), len(dom))
		if c, ok := idx.(uint64); ok {
			return dom[c]
		}
		return symenum{dom, idx.(Sym)}
	})
	nd("EnumPair", func(fr *frame, args []value) value {
		a, b := strSlice(args[1]), strSlice(args[2])
		if len(a) == 0 || len(a) > 255 || len(a) != len(b) {
			panic(abortPath{KEngine, "enum domain size"})
		}
		idx := enumIdx(ndName(args[0]), len(a))
		if c, ok := idx.(uint64); ok {
			return tuple{a[c], b[c]}
		}
		return tuple{symenum{a, idx.(Sym)}, symenum{b, idx.(Sym)}}
	})
	nd("Assert", func(fr *frame, args []value) value {
		msg := args[1].(string)
		switch c := args[0].(type) {
		case bool:
			if !c {
				X.record(KAssert, msg, false, "true")
				panic(assertFail{msg})
			}
		case Sym:
			neg := "(not " + c.T + ")"
			if d, ok := X.known[c.T]; ok {
				if !d {
					X.record(KAssert, msg, false, "true")
					panic(assertFail{msg})
				}
				return nil
			}
			if X.check(neg) {
				X.record(KAssert, msg, false, neg)
				// continue along the passing side if there is one
				if !X.check(c.T) {
					panic(assertFail{msg})
				}
			}
			X.assert(c.T, true)
		default:
			panic(fmt.Sprintf("Assert on %T", c))
		}
		return nil
	})
	nd("Fail", func(fr *frame, args []value) value {
		X.record(KAssert, args[0].(string), false, "true")
		panic(assertFail{args[0].(string)})
	})
	nd("Assume", func(fr *frame, args []value) value {
		if !decideCond(args[0]) {
			panic(abortPath{KAssume, "assumption does not hold on this path"})
		}
		return nil
	})
	nd("Cover", func(fr *frame, args []value) value {
		X.cover[args[0].(string)] = true
		return nil
	})
	nd("MapOrder", func(fr *frame, args []value) value {
		if args[0].(bool) {
			mapOrderMode = 1 + X.Choose(3)
		} else {
			mapOrderMode = 0
		}
		return nil
	})
	nd("Debug", func(fr *frame, args []value) value {
		if X.Debug {
			fmt.Fprintln(os.Stderr, "DEBUG:", toString(args[0]))
		}
		return nil
	})
	nd("Observe", func(fr *frame, args []value) value {
		o := obsEntry{label: args[0].(string)}
		for _, a := range args[1].([]value) {
			o.terms = append(o.terms, obsTerms(a)...)
		}
		X.obs = append(X.obs, o)
		return nil
	})
}

// obsTerms renders one observed value: "=literal" or an SMT term whose model
// value is fetched when the path ends.
func obsTerms(a value) []string {
	it, ok := a.(iface)
	if !ok {
		return []string{"=<" + fmt.Sprintf("%T", a) + ">"}
	}
	if it.t == nil {
		return []string{"=nil"}
	}
	switch v := it.v.(type) {
	case bool:
		return []string{"=" + strconv.FormatBool(v)}
	case int:
		return []string{"=" + strconv.FormatUint(uint64(v), 10)}
	case int64:
		return []string{"=" + strconv.FormatUint(uint64(v), 10)}
	case int32:
		return []string{"=" + strconv.FormatUint(uint64(uint32(v)), 10)}
	case int16:
		return []string{"=" + strconv.FormatUint(uint64(uint16(v)), 10)}
	case int8:
		return []string{"=" + strconv.FormatUint(uint64(uint8(v)), 10)}
	case uint:
		return []string{"=" + strconv.FormatUint(uint64(v), 10)}
	case uint64:
		return []string{"=" + strconv.FormatUint(v, 10)}
	case uint32:
		return []string{"=" + strconv.FormatUint(uint64(v), 10)}
	case uint16:
		return []string{"=" + strconv.FormatUint(uint64(v), 10)}
	case uint8:
		return []string{"=" + strconv.FormatUint(uint64(v), 10)}
	case float64:
		if v != v {
			return []string{"=NaN"}
		}
		return []string{"=f" + strconv.FormatUint(math.Float64bits(v), 10)}
	case string:
		return []string{"=" + renderStr(v)}
	case symenum:
		return obsTerms(iface{it.t, deEnum(v)})
	case symstr:
		var out []string
		for _, b := range v {
			switch b := b.(type) {
			case uint8:
				out = append(out, "="+strconv.Itoa(int(b)))
			case Sym:
				out = append(out, b.T)
			}
		}
		return []string{"~" + strings.Join(out, "\x00")}
	case []value:
		if sl, ok := it.t.Underlying().(*types.Slice); ok {
			if b, ok := sl.Elem().Underlying().(*types.Basic); ok && b.Kind() == types.Uint8 {
				return obsTerms(iface{types.Typ[types.String], normStr(symstr(v))})
			}
		}
	case Sym:
		if v.F {
			unsupported("Observe of a symbolic float")
		}
		if v.W == 0 {
			return []string{v.T}
		}
		return []string{v.T}
	case *value:
		if types.Implements(it.t, errorIface) {
			if v == nil {
				return []string{"=nil"}
			}
			return []string{"=err"}
		}
	}
	if types.Implements(it.t, errorIface) {
		return []string{"=err"}
	}
	return []string{"=<" + it.t.String() + ">"}
}

var errorIface = types.Universe.Lookup("error").Type().Underlying().(*types.Interface)

func renderStr(v string) string {
	var sb strings.Builder
	sb.WriteString("s")
	for i := 0; i < len(v); i++ {
		if i > 0 {
			sb.WriteString(".")
		}
		sb.WriteString(strconv.Itoa(int(v[i])))
	}
	return sb.String()
}
