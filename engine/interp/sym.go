package interp

// Throw-away spike: symbolic values on top of the copied ssa/interp.

import (
	"math"
	"fmt"
	"go/token"
	"go/types"
	"strings"

	"golang.org/x/tools/go/ssa"
)

func mustDeref(t types.Type) types.Type {
	if p, ok := t.Underlying().(*types.Pointer); ok {
		return p.Elem()
	}
	panic("mustDeref: not a pointer: " + t.String())
}

// Sym is a symbolic scalar: W==0 bool, else bit-vector of W bits.
type Sym struct {
	T      string
	W      int
	Signed bool
	F      bool // floating-point term (W = 32 or 64)
}

func fpConst(f float64) string {
	return fmt.Sprintf("((_ to_fp 11 53) #x%016x)", math.Float64bits(f))
}

func fpConst32(f float32) string {
	return fmt.Sprintf("((_ to_fp 8 24) #x%08x)", math.Float32bits(f))
}

func fterm(v value) string {
	switch v := v.(type) {
	case Sym:
		return v.T
	case float64:
		return fpConst(v)
	case float32:
		return fpConst32(v)
	}
	panic(fmt.Sprintf("fterm %T", v))
}

func isFloatType(t types.Type) bool {
	if t == nil {
		return false
	}
	b, ok := t.Underlying().(*types.Basic)
	return ok && b.Info()&types.IsFloat != 0
}

func floatWidth(t types.Type) int {
	if b, ok := t.Underlying().(*types.Basic); ok && b.Kind() == types.Float32 {
		return 32
	}
	return 64
}

func binopFloat(op token.Token, t types.Type, x, y value) value {
	a, b := fterm(x), fterm(y)
	w := floatWidth(t)
	ar := func(o string) value { return X.name(Sym{T: fmt.Sprintf("(%s RNE %s %s)", o, a, b), W: w, F: true}) }
	cmp := func(o string) value { return Sym{T: fmt.Sprintf("(%s %s %s)", o, a, b)} }
	switch op {
	case token.ADD:
		return ar("fp.add")
	case token.SUB:
		return ar("fp.sub")
	case token.MUL:
		return ar("fp.mul")
	case token.QUO:
		return ar("fp.div")
	case token.EQL:
		return cmp("fp.eq")
	case token.NEQ:
		return Sym{T: fmt.Sprintf("(not (fp.eq %s %s))", a, b)}
	case token.LSS:
		return cmp("fp.lt")
	case token.LEQ:
		return cmp("fp.leq")
	case token.GTR:
		return cmp("fp.gt")
	case token.GEQ:
		return cmp("fp.geq")
	}
	panic("binopFloat " + op.String())
}

// symstr is a string of concrete length whose bytes may be symbolic.
type symstr []value

func isSymbolic(v value) bool {
	switch v.(type) {
	case Sym, symstr, symenum:
		return true
	}
	return false
}

// symenum is a string drawn from a finite domain by a symbolic index.
type symenum struct {
	Dom []string
	Idx Sym
}

func (e symenum) isTerm(s string) (string, bool) {
	var cs []string
	for k, d := range e.Dom {
		if d == s {
			cs = append(cs, fmt.Sprintf("(= %s %s)", e.Idx.T, bv(uint64(k), 8)))
		}
	}
	if len(cs) == 0 {
		return "false", false
	}
	return "(or " + strings.Join(cs, " ") + " false)", true
}

// concrete forks over the domain and returns the chosen string.
func (e symenum) concrete() string {
	seen := map[string]bool{}
	for k, d := range e.Dom {
		if seen[d] {
			continue
		}
		seen[d] = true
		if k == len(e.Dom)-1 {
			return d
		}
		t, _ := e.isTerm(d)
		if X.Decide(t) {
			return d
		}
	}
	return e.Dom[len(e.Dom)-1]
}

func deEnum(v value) value {
	if e, ok := v.(symenum); ok {
		X.Concretized++
		return e.concrete()
	}
	return v
}

// normStr turns an all-concrete symstr back into a Go string.
func normStr(s symstr) value {
	b := make([]byte, len(s))
	for i, e := range s {
		c, ok := e.(uint8)
		if !ok {
			return symstr(append([]value(nil), s...))
		}
		b[i] = c
	}
	return string(b)
}

func toSymstr(v value) symstr {
	switch v := v.(type) {
	case symstr:
		return v
	case string:
		r := make(symstr, len(v))
		for i := 0; i < len(v); i++ {
			r[i] = v[i]
		}
		return r
	}
	panic(fmt.Sprintf("toSymstr %T", v))
}

func bv(x uint64, w int) string {
	return fmt.Sprintf("(_ bv%d %d)", x&(^uint64(0)>>(64-uint(w))), w)
}

func basicInfo(t types.Type) (w int, signed bool) {
	b, ok := t.Underlying().(*types.Basic)
	if !ok {
		panic("basicInfo: " + t.String())
	}
	switch b.Kind() {
	case types.Bool, types.UntypedBool:
		return 0, false
	case types.Int8:
		return 8, true
	case types.Uint8:
		return 8, false
	case types.Int16:
		return 16, true
	case types.Uint16:
		return 16, false
	case types.Int32, types.UntypedRune:
		return 32, true
	case types.Uint32:
		return 32, false
	case types.Int, types.Int64, types.UntypedInt:
		return 64, true
	case types.Uint, types.Uint64, types.Uintptr:
		return 64, false
	}
	panic("basicInfo kind: " + t.String())
}

func termOf(v value, w int) string {
	switch v := v.(type) {
	case Sym:
		return v.T
	case bool:
		if v {
			return "true"
		}
		return "false"
	}
	switch v.(type) {
	case int, int8, int16, int32, int64:
		return bv(uint64(asInt64(v)), w)
	}
	return bv(asUint64(v), w)
}

func binopSym(op token.Token, t types.Type, x, y value) value {
	xe, xIsE := x.(symenum)
	ye, yIsE := y.(symenum)
	if xIsE || yIsE {
		if (op == token.EQL || op == token.NEQ) && xIsE != yIsE {
			e, other := xe, y
			if yIsE {
				e, other = ye, x
			}
			if str, ok := other.(string); ok {
				t, any := e.isTerm(str)
				var r value = Sym{T: t}
				if !any {
					r = false
				}
				if op == token.NEQ {
					if b, ok := r.(bool); ok {
						return !b
					}
					return Sym{T: "(not " + t + ")"}
				}
				return r
			}
		}
		return binop(op, t, deEnum(x), deEnum(y))
	}
	_, xs := x.(symstr)
	_, ys := y.(symstr)
	if xs || ys {
		a, b := toSymstr(x), toSymstr(y)
		switch op {
		case token.ADD:
			return normStr(append(append(symstr{}, a...), b...))
		case token.EQL, token.NEQ:
			var r value
			if len(a) != len(b) {
				r = false
			} else {
				var cs []string
				r = true
				for i := range a {
					if !isSymbolic(a[i]) && !isSymbolic(b[i]) {
						if a[i] != b[i] {
							r = false
							cs = nil
							break
						}
						continue
					}
					cs = append(cs, fmt.Sprintf("(= %s %s)", termOf(a[i], 8), termOf(b[i], 8)))
				}
				if r == true && len(cs) > 0 {
					r = Sym{T: "(and " + strings.Join(cs, " ") + " true)"}
				}
			}
			if op == token.NEQ {
				switch v := r.(type) {
				case bool:
					return !v
				case Sym:
					return Sym{T: "(not " + v.T + ")"}
				}
			}
			return r
		}
		panic("binopSym symstr op " + op.String())
	}
	if isFloatType(t) {
		return binopFloat(op, t, x, y)
	}
	w, signed := basicInfo(t)
	if op == token.SHL || op == token.SHR {
		// shift count may have another type; bring it to width w
		var ys string
		switch yv := y.(type) {
		case Sym:
			if yv.Signed && X.Decide(fmt.Sprintf("(bvslt %s %s)", yv.T, bv(0, yv.W))) {
				panic(targetRuntimeError{"negative shift amount"})
			}
			if yv.W > w {
				// counts >= 2^w must still shift everything out: saturate
				big := fmt.Sprintf("(bvuge %s %s)", yv.T, bv(uint64(w), yv.W))
				ys = fmt.Sprintf("(ite %s %s %s)", big, bv(uint64(w), w), resize(yv, w, false).T)
			} else {
				ys = resize(yv, w, false).T
			}
		default:
			c := asUint64FromAny(y)
			if c > 255 {
				c = 255
			}
			ys = bv(c, w)
		}
		o := "bvshl"
		if op == token.SHR {
			o = "bvlshr"
			if signed {
				o = "bvashr"
			}
		}
		return X.name(Sym{T: fmt.Sprintf("(%s %s %s)", o, termOf(x, w), ys), W: w, Signed: signed})
	}
	a, b := termOf(x, w), termOf(y, w)
	if w == 0 {
		switch op {
		case token.EQL:
			return Sym{T: fmt.Sprintf("(= %s %s)", a, b)}
		case token.NEQ:
			return Sym{T: fmt.Sprintf("(not (= %s %s))", a, b)}
		case token.AND:
			return Sym{T: fmt.Sprintf("(and %s %s)", a, b)}
		case token.OR:
			return Sym{T: fmt.Sprintf("(or %s %s)", a, b)}
		}
		panic("binopSym bool op " + op.String())
	}
	cmp := func(s, u string) value {
		o := u
		if signed {
			o = s
		}
		// comparisons against the extreme values of the type are decided here: a
		// bit-blasting solver can need minutes to see that (bvsdiv x y) > MaxInt64 is false
		if r, ok := extremeCmp(op, w, signed, x, y); ok {
			return r
		}
		return Sym{T: fmt.Sprintf("(%s %s %s)", o, a, b)}
	}
	ar := func(o string) value { return X.name(Sym{T: fmt.Sprintf("(%s %s %s)", o, a, b), W: w, Signed: signed}) }
	switch op {
	case token.QUO, token.REM:
		if X.Decide(fmt.Sprintf("(= %s %s)", b, bv(0, w))) {
			panic(targetRuntimeError{"integer divide by zero"})
		}
		o := map[bool]map[token.Token]string{true: {token.QUO: "bvsdiv", token.REM: "bvsrem"}, false: {token.QUO: "bvudiv", token.REM: "bvurem"}}[signed][op]
		return ar(o)
	case token.ADD:
		return ar("bvadd")
	case token.SUB:
		return ar("bvsub")
	case token.MUL:
		return ar("bvmul")
	case token.AND:
		return ar("bvand")
	case token.OR:
		return ar("bvor")
	case token.XOR:
		return ar("bvxor")
	case token.AND_NOT:
		return Sym{T: fmt.Sprintf("(bvand %s (bvnot %s))", a, b), W: w, Signed: signed}
	case token.EQL:
		return Sym{T: fmt.Sprintf("(= %s %s)", a, b)}
	case token.NEQ:
		return Sym{T: fmt.Sprintf("(not (= %s %s))", a, b)}
	case token.LSS:
		return cmp("bvslt", "bvult")
	case token.LEQ:
		return cmp("bvsle", "bvule")
	case token.GTR:
		return cmp("bvsgt", "bvugt")
	case token.GEQ:
		return cmp("bvsge", "bvuge")
	}
	panic("binopSym op " + op.String())
}

// extremeCmp folds x op c when c is the minimum or maximum of the type.
func extremeCmp(op token.Token, w int, signed bool, x, y value) (value, bool) {
	var maxv, minv uint64
	if signed {
		maxv = uint64(1)<<(uint(w)-1) - 1
		minv = uint64(1) << (uint(w) - 1)
	} else {
		maxv = ^uint64(0) >> (64 - uint(w))
		minv = 0
	}
	mask := ^uint64(0) >> (64 - uint(w))
	konst := func(v value) (uint64, bool) {
		if isSymbolic(v) {
			return 0, false
		}
		return asUint64FromAny(v) & mask, true
	}
	if c, ok := konst(y); ok {
		switch {
		case op == token.GTR && c == maxv, op == token.LSS && c == minv:
			return false, true
		case op == token.LEQ && c == maxv, op == token.GEQ && c == minv:
			return true, true
		}
	}
	if c, ok := konst(x); ok {
		switch {
		case op == token.LSS && c == maxv, op == token.GTR && c == minv:
			return false, true
		case op == token.GEQ && c == maxv, op == token.LEQ && c == minv:
			return true, true
		}
	}
	return nil, false
}

func unopSym(instr *ssa.UnOp, x Sym) value {
	if x.F && instr.Op == token.SUB {
		return Sym{T: "(fp.neg " + x.T + ")", W: x.W, F: true}
	}
	switch instr.Op {
	case token.NOT:
		return Sym{T: "(not " + x.T + ")"}
	case token.SUB:
		return Sym{T: "(bvneg " + x.T + ")", W: x.W, Signed: x.Signed}
	case token.XOR:
		return Sym{T: "(bvnot " + x.T + ")", W: x.W, Signed: x.Signed}
	}
	panic("unopSym " + instr.Op.String())
}

func convSym(t_dst, t_src types.Type, x value) (value, bool) {
	dstIsString := false
	if db, ok := t_dst.Underlying().(*types.Basic); ok && db.Info()&types.IsString != 0 {
		dstIsString = true
	}
	if e, ok := x.(symenum); ok {
		if dstIsString {
			return e, true
		}
		return conv(t_dst, t_src, deEnum(x)), true
	}
	switch x := x.(type) {
	case Sym:
		if dstIsString {
			// string(rune): decide the encoded length
			r := x
			if r.W != 32 {
				r = resize(x, 32, false)
			}
			lt := func(c uint64) bool { return X.Decide(fmt.Sprintf("(bvult %s %s)", r.T, bv(c, 32))) }
			ex := func(hi, lo int) string { return fmt.Sprintf("((_ extract %d %d) %s)", hi, lo, r.T) }
			b := func(prefix uint64, hi, lo int) value {
				n := hi - lo + 1
				return Sym{T: fmt.Sprintf("(bvor %s (concat (_ bv0 %d) %s))", bv(prefix, 8), 8-n, ex(hi, lo)), W: 8}
			}
			switch {
			case lt(0x80):
				return symstr{Sym{T: ex(7, 0), W: 8}}, true
			case lt(0x800):
				return symstr{b(0xC0, 10, 6), b(0x80, 5, 0)}, true
			case lt(0x10000):
				if X.Decide(fmt.Sprintf("(and (bvuge %s %s) (bvule %s %s))", r.T, bv(0xD800, 32), r.T, bv(0xDFFF, 32))) {
					return "\uFFFD", true
				}
				return symstr{b(0xE0, 15, 12), b(0x80, 11, 6), b(0x80, 5, 0)}, true
			case lt(0x110000):
				return symstr{b(0xF0, 20, 18), b(0x80, 17, 12), b(0x80, 11, 6), b(0x80, 5, 0)}, true
			default:
				return "\uFFFD", true
			}
		}
		if isFloatType(t_dst) {
			dw := floatWidth(t_dst)
			if x.F {
				if x.W == dw {
					return x, true
				}
				eb, sb := 11, 53
				if dw == 32 {
					eb, sb = 8, 24
				}
				return X.name(Sym{T: fmt.Sprintf("((_ to_fp %d %d) RNE %s)", eb, sb, x.T), W: dw, F: true}), true
			}
			o := "to_fp_unsigned"
			if x.Signed {
				o = "to_fp"
			}
			eb, sb := 11, 53
			if dw == 32 {
				eb, sb = 8, 24
			}
			return X.name(Sym{T: fmt.Sprintf("((_ %s %d %d) RNE %s)", o, eb, sb, x.T), W: dw, F: true}), true
		}
		if _, ok := t_dst.Underlying().(*types.Basic); !ok {
			return nil, false
		}
		w, signed := basicInfo(t_dst)
		if w == 0 {
			return x, true
		}
		if x.F {
			// float -> integer as amd64 does it: CVTTSD2SQ gives 0x8000000000000000 for NaN and
			// out-of-range inputs; narrower signed results are truncations of that.
			if !signed && w == 64 {
				unsupported("float -> uint64 conversion of a symbolic value")
			}
			src := x.T
			if x.W == 32 {
				src = fmt.Sprintf("((_ to_fp 11 53) RNE %s)", x.T)
			}
			inr := fmt.Sprintf("(and (fp.geq %s %s) (fp.lt %s %s))", src, fpConst(-9223372036854775808.0), src, fpConst(9223372036854775808.0))
			r := X.name(Sym{T: fmt.Sprintf("(ite %s ((_ fp.to_sbv 64) RTZ %s) #x8000000000000000)", inr, src), W: 64, Signed: true})
			if w == 64 {
				return r, true
			}
			if w == 32 && signed {
				// CVTTSD2SL: 0x80000000 when out of the int32 range
				in32 := fmt.Sprintf("(and (fp.gt %s %s) (fp.lt %s %s))", src, fpConst(-2147483649.0), src, fpConst(2147483648.0))
				return X.name(Sym{T: fmt.Sprintf("(ite %s ((_ fp.to_sbv 32) RTZ %s) #x80000000)", in32, src), W: 32, Signed: true}), true
			}
			return resize(r, w, signed), true
		}
		return resize(x, w, signed), true
	case symstr:
		switch d := t_dst.Underlying().(type) {
		case *types.Slice:
			if b, ok := d.Elem().Underlying().(*types.Basic); ok && b.Kind() == types.Int32 {
				unsupported("[]rune(symbolic string)")
			}
			return append([]value(nil), []value(x)...), true
		}
		return x, true
	case []value:
		if dstIsString {
			sym := false
			for _, e := range x {
				if isSymbolic(e) {
					sym = true
				}
			}
			if sym {
				if st, ok := t_src.Underlying().(*types.Slice); ok {
					if b, ok := st.Elem().Underlying().(*types.Basic); ok && b.Kind() == types.Int32 {
						// string([]rune): concatenate the encodings (each symbolic rune forks on its length)
						var out value = ""
						for _, r := range x {
							out = concatStr(out, conv(t_dst, types.Typ[types.Rune], r))
						}
						return out, true
					}
				}
				return normStr(symstr(append([]value(nil), x...))), true
			}
		}
	}
	return nil, false
}

func resize(x Sym, w int, signed bool) Sym {
	switch {
	case w == x.W:
		return Sym{T: x.T, W: w, Signed: signed}
	case w < x.W:
		return Sym{T: fmt.Sprintf("((_ extract %d 0) %s)", w-1, x.T), W: w, Signed: signed}
	case x.Signed:
		return Sym{T: fmt.Sprintf("((_ sign_extend %d) %s)", w-x.W, x.T), W: w, Signed: signed}
	default:
		return Sym{T: fmt.Sprintf("((_ zero_extend %d) %s)", w-x.W, x.T), W: w, Signed: signed}
	}
}

func lookupEnumKey(instr *ssa.Lookup, m *omap, key symenum) value {
	elem := instr.X.Type().Underlying().(*types.Map).Elem()
	if m != nil {
		seen := map[string]bool{}
		for _, d := range key.Dom {
			if seen[d] {
				continue
			}
			seen[d] = true
			i, ok := m.index[d]
			if !ok {
				continue
			}
			t, _ := key.isTerm(d)
			if X.Decide(t) {
				if instr.CommaOk {
					return tuple{m.vals[i], true}
				}
				return m.vals[i]
			}
		}
		// symbolic keys already in the map
		for i := range m.keys {
			if m.live[i] && !indexable(m.keys[i]) && m.keyEq(m.keys[i], key) {
				if instr.CommaOk {
					return tuple{m.vals[i], true}
				}
				return m.vals[i]
			}
		}
	}
	v := zero(elem)
	if instr.CommaOk {
		return tuple{v, false}
	}
	return v
}

func sortStrings(a []string) {
	for i := 1; i < len(a); i++ {
		for j := i; j > 0 && a[j] < a[j-1]; j-- {
			a[j], a[j-1] = a[j-1], a[j]
		}
	}
}

func decideCond(c value) bool {
	switch c := c.(type) {
	case bool:
		return c
	case Sym:
		return X.Decide(c.T)
	}
	panic(fmt.Sprintf("decideCond %T", c))
}

// indexAddrIsLoadOnly: every use of the element address is a load.
func indexAddrIsLoadOnly(instr *ssa.IndexAddr) bool {
	refs := instr.Referrers()
	if refs == nil {
		return false
	}
	for _, r := range *refs {
		u, ok := r.(*ssa.UnOp)
		if !ok || u.Op != token.MUL {
			return false
		}
	}
	return true
}

// concretizeIndex picks a concrete index for a symbolic index that is known
// to be in range.  For loads it forks over classes of equal element values
// (a 256-entry table typically has 3-9 classes) and returns a representative;
// otherwise it forks over every feasible index.
func concretizeIndex(si Sym, elems []value, loadOnly bool) int {
	if !loadOnly {
		return int(X.Concretize(resize(si, 64, si.Signed)))
	}
	type class struct {
		v    value
		idxs []int
	}
	var classes []*class
	byVal := map[value]*class{}
	var nilSlices *class
	for i, e := range elems {
		if sl, ok := e.([]value); ok && sl == nil {
			// all nil slices of a table of slices (e.g. a byte -> replacement table) form one class
			if nilSlices == nil {
				nilSlices = &class{e, nil}
				classes = append(classes, nilSlices)
			}
			nilSlices.idxs = append(nilSlices.idxs, i)
			continue
		}
		if !indexable(e) {
			classes = append(classes, &class{e, []int{i}})
			continue
		}
		if c := byVal[e]; c != nil {
			c.idxs = append(c.idxs, i)
			continue
		}
		c := &class{e, []int{i}}
		byVal[e] = c
		classes = append(classes, c)
	}
	if len(classes) > 64 {
		return int(X.Concretize(resize(si, 64, si.Signed)))
	}
	i64 := resize(si, 64, false).T
	for k, c := range classes {
		if k == len(classes)-1 {
			// pin the index so that later uses of the same index agree
			return pinIndex(si, c.idxs)
		}
		if X.Decide(rangesTerm(i64, c.idxs)) {
			return pinIndex(si, c.idxs)
		}
	}
	panic("unreachable")
}

// selectTerm builds, without forking, the value of elems[si] for a table of
// concrete integers of one Go type: an ite chain over the classes of equal
// values, with the entries that equal their own index (identity tables such
// as strings.byteReplacer) covered by the index itself.
func selectTerm(si Sym, elems []value) (value, bool) {
	if len(elems) == 0 || len(elems) > 65536 {
		return nil, false
	}
	w, signed := 0, false
	switch elems[0].(type) {
	case uint8:
		w = 8
	case int8:
		w, signed = 8, true
	case uint16:
		w = 16
	case int16:
		w, signed = 16, true
	case uint32:
		w = 32
	case int32:
		w, signed = 32, true
	case uint64, uint:
		w = 64
	case int64, int:
		w, signed = 64, true
	default:
		return nil, false
	}
	t0 := fmt.Sprintf("%T", elems[0])
	byVal := map[uint64][]int{}
	var order []uint64
	var ident []int
	mask := ^uint64(0)
	if w < 64 {
		mask = (uint64(1) << uint(w)) - 1
	}
	for i, e := range elems {
		if fmt.Sprintf("%T", e) != t0 {
			return nil, false
		}
		u := asUint64FromAny(e) & mask
		if u == uint64(i)&mask && i <= int(mask) {
			ident = append(ident, i)
			continue
		}
		if _, ok := byVal[u]; !ok {
			order = append(order, u)
		}
		byVal[u] = append(byVal[u], i)
	}
	if len(order) > 48 {
		return nil, false
	}
	i64 := resize(si, 64, false).T
	var term string
	if len(ident) > 0 {
		term = resize(si, w, false).T
	} else {
		last := order[len(order)-1]
		order = order[:len(order)-1]
		term = bv(last, w)
	}
	for k := len(order) - 1; k >= 0; k-- {
		term = fmt.Sprintf("(ite %s %s %s)", rangesTerm(i64, byVal[order[k]]), bv(order[k], w), term)
	}
	return Sym{T: term, W: w, Signed: signed}, true
}

func rangesTerm(i64 string, idxs []int) string {
	var rs []string
	for a := 0; a < len(idxs); {
		b := a
		for b+1 < len(idxs) && idxs[b+1] == idxs[b]+1 {
			b++
		}
		if a == b {
			rs = append(rs, fmt.Sprintf("(= %s %s)", i64, bv(uint64(idxs[a]), 64)))
		} else {
			rs = append(rs, fmt.Sprintf("(and (bvuge %s %s) (bvule %s %s))", i64, bv(uint64(idxs[a]), 64), i64, bv(uint64(idxs[b]), 64)))
		}
		a = b + 1
	}
	if len(rs) == 1 {
		return rs[0]
	}
	return "(or " + strings.Join(rs, " ") + ")"
}

// pinIndex returns a representative of the class.  The index itself stays
// symbolic (constrained to the class), which is sound because all elements of
// the class hold the same value.
func pinIndex(si Sym, idxs []int) int { return idxs[0] }

func asUint64FromAny(v value) uint64 {
	switch v.(type) {
	case int, int8, int16, int32, int64:
		return uint64(asInt64(v))
	}
	return asUint64(v)
}

// lazyInit runs the initialiser of g's package the first time one of its
// globals is touched (imports are not initialised eagerly).
func lazyInit(fr *frame, g *ssa.Global) {
	pkg := g.Pkg
	i := fr.i
	if pkg == nil || i.inited[pkg] || g.Name() == "init$guard" {
		return
	}
	i.inited[pkg] = true
	if !i.interpret(pkg.Pkg.Path()) || skipInit[pkg.Pkg.Path()] {
		return
	}
	guard := pkg.Members["init$guard"].(*ssa.Global)
	*globalCell(i, guard) = false
	saved := CallStack
	savedFuel := fuel
	fuel = 200_000_000
	n0 := X.Instrs
	initDepth++ // package initialisation happens before everything: no scheduling, no race bookkeeping
	func() {
		defer func() { initDepth-- }()
		call(i, fr, token.NoPos, pkg.Func("init"), nil)
	}()
	fuel = savedFuel
	X.InitInstrs += X.Instrs - n0
	CallStack = saved
}

var initDepth int

// skipInit: packages whose initialiser cannot be interpreted and whose
// globals are modelled or unused.
var skipInit = map[string]bool{"errors": true, "internal/reflectlite": true, "runtime": true, "os": true, "syscall": true, "reflect": true, "sync": true, "internal/poll": true, "internal/godebug": true, "log": true, "net": true, "net/http": true, "crypto/rand": true, "math/rand": true, "math/rand/v2": true}

// seededGlobals: values of globals of packages whose initialiser is not run.
var seededGlobals = map[string]func() value{
	"net.v4InV6Prefix": func() value { return bytesValue(0, 0, 0, 0, 0, 0, 0, 0, 0, 0, 0xff, 0xff) },
	"net.IPv4zero":     func() value { return bytesValue(0, 0, 0, 0, 0, 0, 0, 0, 0, 0, 0xff, 0xff, 0, 0, 0, 0) },
	"net.IPv4bcast":    func() value { return bytesValue(0, 0, 0, 0, 0, 0, 0, 0, 0, 0, 0xff, 0xff, 255, 255, 255, 255) },
	"net.IPv6zero":     func() value { return bytesValue(0, 0, 0, 0, 0, 0, 0, 0, 0, 0, 0, 0, 0, 0, 0, 0) },
	"net.IPv6unspecified": func() value { return bytesValue(0, 0, 0, 0, 0, 0, 0, 0, 0, 0, 0, 0, 0, 0, 0, 0) },
	"net.IPv6loopback": func() value { return bytesValue(0, 0, 0, 0, 0, 0, 0, 0, 0, 0, 0, 0, 0, 0, 0, 1) },
	"net.classAMask":   func() value { return bytesValue(0xff, 0, 0, 0) },
	"net.classBMask":   func() value { return bytesValue(0xff, 0xff, 0, 0) },
	"net.classCMask":   func() value { return bytesValue(0xff, 0xff, 0xff, 0) },
}

func bytesValue(bs ...byte) value {
	out := make([]value, len(bs))
	for i, b := range bs {
		out[i] = b
	}
	return out
}

func globalCell(i *interpreter, g *ssa.Global) *value {
	if r, ok := i.globals[g]; ok {
		return r
	}
	cell := zero(mustDeref(g.Type()))
	if g.Name() == "init$guard" {
		cell = true // initialisers run lazily, one package at a time (lazyInit)
	}
	if g.Pkg != nil && skipInit[g.Pkg.Pkg.Path()] {
		if v, ok := seededGlobals[g.Pkg.Pkg.Path()+"."+g.Name()]; ok {
			cell = v()
		}
	}
	i.globals[g] = &cell
	return &cell
}
