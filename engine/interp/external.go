// Copyright 2013 The Go Authors. All rights reserved.
// Use of this source code is governed by a BSD-style
// license that can be found in the LICENSE file.

package interp

// Emulated functions that cannot be interpreted because they are external or
// because they use "unsafe" or "reflect" operations.  (Trimmed copy of
// x/tools/go/ssa/interp/external.go; the models live in models.go.)

import (
	"math"
)

type externalFn func(fr *frame, args []value) value

// Key strings are from Function.String().
var externals = make(map[string]externalFn)



func init() {
	externals["math.Copysign"] = func(fr *frame, args []value) value {
		a, aok := args[0].(float64)
		b, bok := args[1].(float64)
		if !aok || !bok {
			unsupported("math.Copysign on symbolic values")
		}
		return math.Copysign(a, b)
	}
	externals["math.Ldexp"] = func(fr *frame, args []value) value {
		a, aok := args[0].(float64)
		if !aok {
			unsupported("math.Ldexp on symbolic values")
		}
		return math.Ldexp(a, args[1].(int))
	}
	externals["math.Min"] = func(fr *frame, args []value) value {
		a, aok := args[0].(float64)
		b, bok := args[1].(float64)
		if !aok || !bok {
			unsupported("math.Min on symbolic values")
		}
		return math.Min(a, b)
	}
	externals["math.Max"] = func(fr *frame, args []value) value {
		a, aok := args[0].(float64)
		b, bok := args[1].(float64)
		if !aok || !bok {
			unsupported("math.Max on symbolic values")
		}
		return math.Max(a, b)
	}
	externals["runtime.GC"] = func(fr *frame, args []value) value { return nil }
	externals["runtime.GOMAXPROCS"] = func(fr *frame, args []value) value { return 1 }
	externals["runtime.NumCPU"] = func(fr *frame, args []value) value { return 1 }
	externals["os.Exit"] = func(fr *frame, args []value) value {
		panic(abortPath{KUnsupported, "os.Exit called by the target"})
	}
}
