// symgo: bounded symbolic execution of Go SSA for the falco verification harnesses.
//
//	symgo run   -harness FILE -entry NAME [-param K=V]... [-workers N] [-fuel N] [-out FILE] ...
//	symgo worker ...            (internal: one exploration worker, JSON lines on stdin/stdout)
package main

import (
	"bufio"
	"encoding/json"
	"flag"
	"fmt"
	"io"
	"os"
	"os/exec"
	"path/filepath"
	"sort"
	"strconv"
	"strings"
	"sync"
	"time"

	"golang.org/x/tools/go/packages"
	"golang.org/x/tools/go/ssa"
	"golang.org/x/tools/go/ssa/ssautil"

	"symgo/interp"
)

const modPath = "github.com/ysugimoto/falco/v2"

type multi []string

func (m *multi) String() string     { return strings.Join(*m, ",") }
func (m *multi) Set(s string) error { *m = append(*m, s); return nil }

type options struct {
	repo      string
	harness   string
	extra     multi // additional overlay files: repoRelPath=file
	entry     string
	params    multi
	fuel      int64
	workers   int
	maxPaths  int
	timeout   time.Duration
	solver    string
	solverTO  int
	out       string
	concrete  string
	preempt   int
	debug     bool
	modfile   string
	nondetSrc string
	batch     int
	yieldAll  bool
	runsFile  string
}

func parseFlags(args []string) *options {
	o := &options{}
	fs := flag.NewFlagSet("symgo", flag.ExitOnError)
	fs.StringVar(&o.repo, "repo", "/repo", "repository root")
	fs.StringVar(&o.harness, "harness", "", "harness Go file (header names the target package)")
	fs.Var(&o.extra, "overlay", "additional overlay file: <repo-relative path>=<file>")
	fs.StringVar(&o.entry, "entry", "", "entry function in the harness")
	fs.Var(&o.params, "param", "K=V harness parameter (nondet.Param)")
	fs.Int64Var(&o.fuel, "fuel", 2_000_000, "SSA instructions per path")
	fs.IntVar(&o.workers, "workers", 8, "worker processes")
	fs.IntVar(&o.maxPaths, "max-paths", 0, "stop after this many paths (0 = exhaust)")
	fs.DurationVar(&o.timeout, "timeout", 10*time.Minute, "wall-clock limit for the exploration")
	fs.StringVar(&o.solver, "solver", "z3 -in", "solver command line (SMT-LIB2 on stdin)")
	fs.IntVar(&o.solverTO, "solver-timeout", 60000, "per-query timeout in ms")
	fs.StringVar(&o.out, "out", "", "result JSON file")
	fs.StringVar(&o.concrete, "concrete", "", "model JSON: replay this model concretely in the engine (no solver)")
	fs.IntVar(&o.preempt, "preempt", 2, "preemption bound of the scheduler")
	fs.BoolVar(&o.debug, "debug", false, "print nondet.Debug output and engine errors")
	fs.StringVar(&o.modfile, "modfile", "", "copy of go.mod to use (keeps /repo untouched)")
	fs.StringVar(&o.nondetSrc, "nondet", "/verif/harness/nondet/nondet.go", "source of package nondet")
	fs.IntVar(&o.batch, "batch", 48, "paths per job handed to a worker")
	fs.BoolVar(&o.yieldAll, "yield-all", false, "schedule at every load/store, not only those in falco code")
	fs.StringVar(&o.runsFile, "runs", "", "JSON list of runs [{entry, params, fuel, preempt, timeout_s}] explored one after the other with one worker pool")
	fs.Parse(args)
	return o
}

// header of a harness file.
type header struct {
	pkgDir     string            // directory under the repo where the harness is overlaid
	intercepts map[string]string // ssa function name -> harness function
	interpret  []string          // extra packages to interpret
	deny       []string
	overlays   map[string]string // repo-relative path -> file (relative to the verif root)
}

func readHeader(file string) (*header, []byte) {
	src, err := os.ReadFile(file)
	if err != nil {
		fatal("read harness: %v", err)
	}
	h := &header{intercepts: map[string]string{}, overlays: map[string]string{}}
	for _, l := range strings.Split(string(src), "\n") {
		l = strings.TrimSpace(l)
		if !strings.HasPrefix(l, "//verif:") {
			continue
		}
		f := strings.Fields(l[len("//verif:"):])
		if len(f) == 0 {
			continue
		}
		switch f[0] {
		case "pkg":
			h.pkgDir = f[1]
		case "intercept":
			h.intercepts[strings.Join(f[1:len(f)-1], " ")] = f[len(f)-1]
		case "overlay":
			k := strings.SplitN(f[1], "=", 2)
			h.overlays[k[0]] = k[1]
		case "interpret":
			h.interpret = append(h.interpret, f[1:]...)
		case "deny":
			h.deny = append(h.deny, f[1:]...)
		}
	}
	if h.pkgDir == "" {
		fatal("harness %s has no //verif:pkg line", file)
	}
	return h, src
}

func fatal(format string, a ...any) {
	fmt.Fprintf(os.Stderr, "symgo: "+format+"\n", a...)
	os.Exit(3)
}

// packages interpreted from source (everything in falco's module, plus these).
var interpretStd = map[string]bool{}

func init() {
	for _, p := range strings.Fields(`strings bytes bufio unicode unicode/utf8 unicode/utf16 strconv internal/strconv sort slices maps errors io math math/bits
		encoding/binary encoding/hex encoding/base64 internal/byteorder internal/stringslite net/textproto net/http net/url time net iter cmp
		github.com/pkg/errors internal/itoa internal/bytealg io/fs path path/filepath text/tabwriter html internal/goarch
		container/list container/heap hash/crc32 hash/fnv hash/adler32 hash unique context fmt sync sync/atomic os regexp runtime math/rand
		net/netip internal/godebug internal/race internal/cpu net/http/internal/ascii golang.org/x/net/http/httpguts mime
		github.com/fatih/color github.com/mattn/go-colorable github.com/mattn/go-isatty encoding/json
		crypto/md5 crypto/sha1 crypto/sha256 crypto/sha512 crypto/hmac crypto/subtle hash/maphash
		github.com/goccy/go-yaml os/exec log internal/filepathlite internal/bytealg
		go.elara.ws/pcre`) {
		interpretStd[p] = true
	}
}

type loaded struct {
	prog *ssa.Program
	pkg  *ssa.Package
	hdr  *header
}

func load(o *options) *loaded {
	hdr, src := readHeader(o.harness)
	nd, err := os.ReadFile(o.nondetSrc)
	if err != nil {
		fatal("read nondet: %v", err)
	}
	ov := map[string][]byte{
		filepath.Join(o.repo, "zz_verif/nondet/nondet.go"):      nd,
		filepath.Join(o.repo, hdr.pkgDir, "zz_verif_harness.go"): src,
	}
	verifRoot := filepath.Dir(filepath.Dir(filepath.Dir(o.harness))) // harness/<id>/<file>
	for rel, f := range hdr.overlays {
		b, err := os.ReadFile(filepath.Join(verifRoot, f))
		if err != nil {
			fatal("read overlay: %v", err)
		}
		ov[filepath.Join(o.repo, rel)] = b
	}
	for _, e := range o.extra {
		k := strings.SplitN(e, "=", 2)
		b, err := os.ReadFile(k[1])
		if err != nil {
			fatal("read overlay: %v", err)
		}
		ov[filepath.Join(o.repo, k[0])] = b
	}
	env := append(os.Environ(), "PATH=/opt/veriftools/go1.26.8/bin:"+os.Getenv("PATH"), "GOPROXY=off", "GOSUMDB=off", "GOTOOLCHAIN=local", "GOFLAGS=-mod=mod")
	if o.modfile != "" {
		env[len(env)-1] = "GOFLAGS=-mod=mod -modfile=" + o.modfile
	}
	cfg := &packages.Config{Mode: packages.LoadAllSyntax, Dir: o.repo, Overlay: ov, Env: env}
	pkgs, err := packages.Load(cfg, "./"+hdr.pkgDir)
	if err != nil {
		fatal("load: %v", err)
	}
	if packages.PrintErrors(pkgs) > 0 {
		fatal("harness does not type-check against the current tree")
	}
	prog, spkgs := ssautil.AllPackages(pkgs, ssa.InstantiateGenerics)
	prog.Build()
	return &loaded{prog: prog, pkg: spkgs[0], hdr: hdr}
}

type runSpec struct {
	Entry    string         `json:"entry"`
	Params   map[string]int `json:"params"`
	Fuel     int64          `json:"fuel"`
	Preempt  int            `json:"preempt"`
	TimeoutS int            `json:"timeout_s"`
	MaxPaths int            `json:"max_paths"`
}

func readRuns(o *options) []runSpec {
	if o.runsFile != "" {
		b, err := os.ReadFile(o.runsFile)
		if err != nil {
			fatal("read runs: %v", err)
		}
		var rs []runSpec
		if err := json.Unmarshal(b, &rs); err != nil {
			fatal("parse runs: %v", err)
		}
		for i := range rs {
			if rs[i].Fuel == 0 {
				rs[i].Fuel = o.fuel
			}
			if rs[i].Preempt == 0 {
				rs[i].Preempt = o.preempt
			}
			if rs[i].Preempt == 0 {
				rs[i].Preempt = -1
			}
			if rs[i].TimeoutS == 0 {
				rs[i].TimeoutS = int(o.timeout.Seconds())
			}
			if rs[i].Params == nil {
				rs[i].Params = map[string]int{}
			}
		}
		return rs
	}
	params := map[string]int{}
	for _, p := range o.params {
		k := strings.SplitN(p, "=", 2)
		v, err := strconv.Atoi(k[1])
		if err != nil {
			fatal("bad -param %s", p)
		}
		params[k[0]] = v
	}
	return []runSpec{{Entry: o.entry, Params: params, Fuel: o.fuel, Preempt: o.preempt, TimeoutS: int(o.timeout.Seconds()), MaxPaths: o.maxPaths}}
}

func (l *loaded) job(o *options, rs runSpec) *interp.Job {
	extra := map[string]bool{}
	for _, p := range l.hdr.interpret {
		extra[p] = true
	}
	deny := map[string]bool{}
	for _, p := range l.hdr.deny {
		deny[p] = true
	}
	interp.Intercepts = map[string]*ssa.Function{}
	for name, h := range l.hdr.intercepts {
		hf := l.pkg.Func(h)
		if hf == nil {
			fatal("intercept target %s not found in harness", h)
		}
		interp.Intercepts[name] = hf
	}
	interp.YieldEverywhere = o.yieldAll
	return &interp.Job{
		Prog: l.prog, Pkg: l.pkg, Entry: rs.Entry, Fuel: rs.Fuel,
		Interpret: func(p string) bool {
			if deny[p] {
				return false
			}
			return strings.HasPrefix(p, modPath) || interpretStd[p] || extra[p] || strings.HasPrefix(p, "vendor/golang.org/x/")
		},
		SolverCmd: strings.Fields(o.solver), TimeoutMS: o.solverTO, Params: rs.Params, MaxPreempt: rs.Preempt, Debug: o.debug,
	}
}

// ---- worker protocol

type jobMsg struct {
	Run    int      `json:"run"`
	Prefix []string `json:"prefix"`
	Budget int      `json:"budget"`
}

type stats struct {
	Paths       int              `json:"paths"`
	Instrs      int64            `json:"instrs"`
	InitInstrs  int64            `json:"init_instrs"`
	Queries     int64            `json:"queries"`
	Sat         int64            `json:"sat"`
	Unsat       int64            `json:"unsat"`
	Unknown     int64            `json:"unknown"`
	Fallback    int64            `json:"second_solver"`
	Cached      int64            `json:"cached_decisions"`
	Concretized int64            `json:"concretisations"`
	Switches    int64            `json:"context_switches"`
	Approx      int64            `json:"approximate_strings"`
	SolverS     float64          `json:"solver_s"`
	FuncCalls   map[string]int64 `json:"func_calls,omitempty"`
	ExtCalls    map[string]int64 `json:"model_calls,omitempty"`
	Intercepted map[string]int64 `json:"intercepted,omitempty"`
}

type replyMsg struct {
	Results []interp.PathResult `json:"results"`
	Pending [][]string          `json:"pending"`
	Stats   *stats              `json:"stats,omitempty"`
	Ready   bool                `json:"ready,omitempty"`
}

func statsOf(e *interp.Explorer) *stats {
	return &stats{Paths: e.Paths, Instrs: e.Instrs, InitInstrs: e.InitInstrs, Queries: e.Queries, Sat: e.QSat, Unsat: e.QUnsat, Unknown: e.QUnknown, Fallback: e.QFallback,
		Cached: e.Cached, Concretized: e.Concretized, Switches: e.Switches, Approx: e.Approx, SolverS: e.SolverNS.Seconds(),
		FuncCalls: e.FuncCalls, ExtCalls: e.ExtCalls, Intercepted: e.Intercepted}
}

func workerMain(o *options) {
	l := load(o)
	runs := readRuns(o)
	jobs := make([]*interp.Job, len(runs))
	for i, rs := range runs {
		jobs[i] = l.job(o, rs)
	}
	e := interp.NewExplorer(jobs[0])
	defer e.Close()
	in := bufio.NewReaderSize(os.Stdin, 1<<20)
	out := bufio.NewWriter(os.Stdout)
	enc := json.NewEncoder(out)
	enc.Encode(replyMsg{Ready: true})
	out.Flush()
	for {
		line, err := in.ReadBytes('\n')
		if err != nil {
			return
		}
		var jm jobMsg
		if err := json.Unmarshal(line, &jm); err != nil {
			fatal("worker: bad job: %v", err)
		}
		var rep replyMsg
		stack := [][]string{jm.Prefix}
		n := 0
		j := jobs[jm.Run]
		e.Params = j.Params
		t0 := time.Now()
		for len(stack) > 0 && n < jm.Budget && time.Since(t0) < 20*time.Second { // report back at least every 20 s + one path
			p := stack[len(stack)-1]
			stack = stack[:len(stack)-1]
			res, pend := e.RunPrefix(j, p, nil)
			rep.Results = append(rep.Results, res...)
			stack = append(stack, pend...)
			n++
		}
		rep.Pending = stack
		rep.Stats = statsOf(e)
		enc.Encode(rep)
		out.Flush()
	}
}

// ---- coordinator

type summary struct {
	Entry      string              `json:"entry"`
	Harness    string              `json:"harness"`
	Params     map[string]int      `json:"params"`
	Complete   bool                `json:"complete"`
	Why        string              `json:"incomplete_reason,omitempty"`
	Paths      int                 `json:"paths"`
	Kinds      map[string]int      `json:"kinds"`
	Violations []interp.PathResult `json:"violations"`
	Problems   []interp.PathResult `json:"problems"` // unsupported / engine / unknown / fuel
	Samples    []interp.PathResult `json:"samples"`
	Cover      map[string]int      `json:"cover"`
	Stats      stats               `json:"stats"`
	Workers    int                 `json:"workers"`
	WallS      float64             `json:"wall_s"`
	LoadS      float64             `json:"load_s"`
	Decisions  int64               `json:"decisions"`
	Intercepts map[string]string   `json:"intercepts"`
	Solver     string              `json:"solver"`
	Fuel       int64               `json:"fuel"`
	Preempt    int                 `json:"preempt"`
}

type workerProc struct {
	cmd  *exec.Cmd
	in   io.WriteCloser
	out  *bufio.Reader
	last *stats
	dead bool
}

func startWorker(args []string) (*workerProc, error) {
	self, _ := os.Executable()
	cmd := exec.Command(self, append([]string{"worker"}, args...)...)
	cmd.Stderr = os.Stderr
	in, _ := cmd.StdinPipe()
	outp, _ := cmd.StdoutPipe()
	if err := cmd.Start(); err != nil {
		return nil, err
	}
	w := &workerProc{cmd: cmd, in: in, out: bufio.NewReaderSize(outp, 1<<20)}
	line, err := w.out.ReadBytes('\n')
	if err != nil {
		cmd.Wait()
		return nil, fmt.Errorf("worker did not start")
	}
	var r replyMsg
	if json.Unmarshal(line, &r) != nil || !r.Ready {
		return nil, fmt.Errorf("worker handshake failed: %s", line)
	}
	return w, nil
}

func addStats(a *stats, b *stats) {
	a.Paths += b.Paths
	a.Instrs += b.Instrs
	a.InitInstrs += b.InitInstrs
	a.Queries += b.Queries
	a.Sat += b.Sat
	a.Unsat += b.Unsat
	a.Unknown += b.Unknown
	a.Fallback += b.Fallback
	a.Cached += b.Cached
	a.Concretized += b.Concretized
	a.Switches += b.Switches
	a.Approx += b.Approx
	a.SolverS += b.SolverS
	merge := func(dst *map[string]int64, src map[string]int64) {
		if *dst == nil {
			*dst = map[string]int64{}
		}
		for k, v := range src {
			(*dst)[k] += v
		}
	}
	merge(&a.FuncCalls, b.FuncCalls)
	merge(&a.ExtCalls, b.ExtCalls)
	merge(&a.Intercepted, b.Intercepted)
}

// pool of worker processes shared by the runs of one invocation.
type pool struct {
	o       *options
	rawArgs []string
	mu      sync.Mutex
	workers []*workerProc
}

func (p *pool) add(n int) {
	var nw []*workerProc
	var swg sync.WaitGroup
	var smu sync.Mutex
	for k := 0; k < n; k++ {
		swg.Add(1)
		go func() {
			defer swg.Done()
			if w, err := startWorker(p.rawArgs); err == nil {
				smu.Lock()
				nw = append(nw, w)
				smu.Unlock()
			} else {
				fmt.Fprintln(os.Stderr, "symgo:", err)
			}
		}()
	}
	swg.Wait()
	p.mu.Lock()
	p.workers = append(p.workers, nw...)
	p.mu.Unlock()
}

func (p *pool) close() {
	for _, w := range p.workers {
		w.in.Close()
		w.cmd.Process.Kill()
		w.cmd.Wait()
	}
}

func subStats(a, b *stats) stats {
	if a == nil {
		return stats{}
	}
	if b == nil {
		b = &stats{}
	}
	d := stats{Paths: a.Paths - b.Paths, Instrs: a.Instrs - b.Instrs, InitInstrs: a.InitInstrs - b.InitInstrs, Queries: a.Queries - b.Queries,
		Sat: a.Sat - b.Sat, Unsat: a.Unsat - b.Unsat, Unknown: a.Unknown - b.Unknown, Fallback: a.Fallback - b.Fallback, Cached: a.Cached - b.Cached, Concretized: a.Concretized - b.Concretized,
		Switches: a.Switches - b.Switches, Approx: a.Approx - b.Approx, SolverS: a.SolverS - b.SolverS}
	sub := func(x, y map[string]int64) map[string]int64 {
		r := map[string]int64{}
		for k, v := range x {
			if v-y[k] != 0 {
				r[k] = v - y[k]
			}
		}
		return r
	}
	d.FuncCalls, d.ExtCalls, d.Intercepted = sub(a.FuncCalls, b.FuncCalls), sub(a.ExtCalls, b.ExtCalls), sub(a.Intercepted, b.Intercepted)
	return d
}

// runState is the exploration state of one run (entry + parameters).
type runState struct {
	idx      int
	rs       runSpec
	sum      *summary
	queue    [][]string
	busy     int
	started  time.Time
	deadline time.Time
	stop     bool
	done     bool
	seenV    map[string]int
	nViol    int
	nFuel    int
	seenP    map[string]int
	serving  map[*workerProc]bool
}

func (r *runState) absorb(rep *replyMsg) {
	sum := r.sum
	for _, x := range rep.Results {
		sum.Kinds[x.Kind]++
		if x.Final {
			sum.Paths++
			sum.Decisions += int64(len(strings.Fields(x.Prefix)))
			for _, c := range x.Cover {
				sum.Cover[c]++
			}
		}
		switch x.Kind {
		case interp.KOK, interp.KAssume:
			if x.Kind == interp.KOK && (len(sum.Samples) < 24 || (sum.Paths%97 == 0 && len(sum.Samples) < 400)) {
				x.Stack = nil
				sum.Samples = append(sum.Samples, x)
			}
		case interp.KAssert, interp.KPanic, interp.KRuntime, interp.KDeadlock, interp.KRace:
			key := x.Kind + "|" + x.Msg + "|" + x.Where
			r.seenV[key]++
			r.nViol++
			if r.nViol >= 600 && !r.stop {
				r.stop, sum.Why = true, "stopped after 600 violating paths"
			}
			if r.seenV[key] <= 6 && len(sum.Violations) < 2000 {
				sum.Violations = append(sum.Violations, x)
			}
		default:
			key := x.Kind + "|" + firstLine(x.Msg)
			r.seenP[key]++
			if x.Kind == interp.KFuel {
				r.nFuel++
				if r.nFuel >= 8 && !r.stop {
					r.stop, sum.Why = true, "stopped after 8 paths that exhausted their budget"
				}
			}
			if r.seenP[key] <= 3 && len(sum.Problems) < 200 {
				sum.Problems = append(sum.Problems, x)
			}
		}
	}
}

// exploreAll explores every run on the shared pool.  Workers take work from
// the lowest-numbered run that has any, so runs finish roughly in order while
// idle workers already start on later ones.
func (p *pool) exploreAll(runs []runSpec, hdr *header) []*summary {
	o := p.o
	var mu sync.Mutex
	cond := sync.NewCond(&mu)
	states := make([]*runState, len(runs))
	for i, rs := range runs {
		states[i] = &runState{idx: i, rs: rs, queue: [][]string{nil}, seenV: map[string]int{}, seenP: map[string]int{}, serving: map[*workerProc]bool{},
			sum: &summary{Entry: rs.Entry, Harness: o.harness, Kinds: map[string]int{}, Cover: map[string]int{}, Params: rs.Params,
				Intercepts: hdr.intercepts, Solver: o.solver, Fuel: rs.Fuel, Preempt: rs.Preempt}}
	}
	allDone := func() bool {
		for _, r := range states {
			if !r.done {
				return false
			}
		}
		return true
	}
	finishRun := func(r *runState) {
		r.done = true
		r.sum.Complete = !r.stop && len(r.queue) == 0
		if !r.sum.Complete && r.sum.Why == "" {
			r.sum.Why = "stopped"
		}
		r.sum.WallS = time.Since(r.started).Seconds()
		r.sum.Workers = len(r.serving)
		sort.Slice(r.sum.Violations, func(i, j int) bool { return r.sum.Violations[i].Msg < r.sum.Violations[j].Msg })
		fmt.Fprintf(os.Stderr, "symgo %s %v: complete=%v paths=%d kinds=%v queries=%d solver=%.1fs instrs=%d workers=%d wall=%.1fs %s\n",
			r.sum.Entry, r.sum.Params, r.sum.Complete, r.sum.Paths, r.sum.Kinds, r.sum.Stats.Queries, r.sum.Stats.SolverS, r.sum.Stats.Instrs, r.sum.Workers, r.sum.WallS, r.sum.Why)
	}
	// pick must be called with mu held
	pick := func() *runState {
		for _, r := range states {
			if r.done {
				continue
			}
			if r.stop {
				r.queue = r.queue[:0]
			}
			if len(r.queue) == 0 {
				if r.busy == 0 {
					if r.started.IsZero() {
						r.started = time.Now()
					}
					finishRun(r)
				}
				continue
			}
			return r
		}
		return nil
	}
	backlog := func() int {
		n := 0
		for _, r := range states {
			if !r.done && !r.stop {
				n += len(r.queue)
			}
		}
		return n
	}
	var wg sync.WaitGroup
	attached := map[*workerProc]bool{}

	serve := func(w *workerProc) {
		defer wg.Done()
		enc := json.NewEncoder(w.in)
		for {
			mu.Lock()
			var r *runState
			for {
				r = pick()
				if r != nil || allDone() {
					break
				}
				cond.Wait()
			}
			if r == nil {
				mu.Unlock()
				cond.Broadcast()
				return
			}
			if r.started.IsZero() {
				r.started = time.Now()
				r.deadline = r.started.Add(time.Duration(r.rs.TimeoutS) * time.Second)
			}
			pf := r.queue[len(r.queue)-1]
			r.queue = r.queue[:len(r.queue)-1]
			budget := o.batch
			if backlog() < 2*o.workers {
				budget = 8
			}
			r.busy++
			r.serving[w] = true
			before := w.last
			mu.Unlock()

			enc.Encode(jobMsg{Run: r.idx, Prefix: pf, Budget: budget})
			line, err := w.out.ReadBytes('\n')
			mu.Lock()
			r.busy--
			if err != nil {
				r.sum.Problems = append(r.sum.Problems, interp.PathResult{Kind: interp.KEngine, Msg: "worker process died while exploring", Prefix: strings.Join(pf, " "), Final: true})
				r.sum.Kinds[interp.KEngine]++
				r.stop = true
				r.sum.Why = "worker died"
				w.dead = true
				mu.Unlock()
				cond.Broadcast()
				return
			}
			var rep replyMsg
			if err := json.Unmarshal(line, &rep); err != nil {
				r.stop = true
				r.sum.Why = "bad worker reply"
				w.dead = true
				mu.Unlock()
				cond.Broadcast()
				return
			}
			r.absorb(&rep)
			// across all runs of this invocation: enough paths never ended - the rest would only repeat it, slowly
			totalFuel := 0
			for _, o := range states {
				totalFuel += o.nFuel
			}
			if totalFuel >= 24 {
				for _, o := range states {
					if !o.done && !o.stop {
						o.stop, o.sum.Why = true, "stopped: 24 paths of this invocation exhausted their budget"
					}
				}
			}
			d := subStats(rep.Stats, before)
			addStats(&r.sum.Stats, &d)
			w.last = rep.Stats
			if !r.stop {
				r.queue = append(r.queue, rep.Pending...)
			}
			if r.rs.MaxPaths > 0 && r.sum.Paths >= r.rs.MaxPaths && !r.stop {
				r.stop = true
				r.sum.Why = "max-paths reached"
			}
			if time.Now().After(r.deadline) && !r.stop && (len(r.queue) > 0 || len(rep.Pending) > 0 || r.busy > 0) {
				r.stop = true
				r.sum.Why = "wall-clock limit reached"
			}
			mu.Unlock()
			cond.Broadcast()
		}
	}

	attach := func() { // mu held
		p.mu.Lock()
		for _, w := range p.workers {
			if !attached[w] && !w.dead {
				attached[w] = true
				wg.Add(1)
				go serve(w)
			}
		}
		p.mu.Unlock()
	}
	if len(p.workers) == 0 {
		p.add(1)
		if len(p.workers) == 0 {
			fatal("no worker could be started")
		}
	}
	mu.Lock()
	attach()
	mu.Unlock()

	growDone := make(chan struct{})
	go func() {
		defer close(growDone)
		for {
			time.Sleep(200 * time.Millisecond)
			mu.Lock()
			n := 0
			for _, w := range p.workers {
				if !w.dead {
					n++
				}
			}
			bl := backlog()
			done := allDone()
			mu.Unlock()
			if done {
				return
			}
			if n == 0 {
				p.add(1)
				mu.Lock()
				attach()
				mu.Unlock()
				continue
			}
			if n < o.workers && bl > n {
				add := o.workers - n
				if add > 5 && n == 1 {
					add = 5
				}
				p.add(add)
				mu.Lock()
				attach()
				mu.Unlock()
			}
		}
	}()
	wg.Wait()
	mu.Lock()
	for _, r := range states {
		if !r.done {
			if r.started.IsZero() {
				r.started = time.Now()
			}
			if len(r.queue) > 0 {
				r.stop = true
				r.sum.Why = "no worker left"
			}
			finishRun(r)
		}
	}
	mu.Unlock()
	cond.Broadcast()
	<-growDone
	var sums []*summary
	for _, r := range states {
		sums = append(sums, r.sum)
	}
	return sums
}

func runMain(o *options, rawArgs []string) {
	t0 := time.Now()
	hdr, _ := readHeader(o.harness)
	runs := readRuns(o)
	if o.concrete != "" {
		sum := &summary{Entry: runs[0].Entry, Harness: o.harness, Kinds: map[string]int{}, Cover: map[string]int{}, Params: runs[0].Params,
			Intercepts: hdr.intercepts, Solver: o.solver, Fuel: runs[0].Fuel, Preempt: runs[0].Preempt}
		runConcrete(o, runs[0], sum, t0)
		return
	}
	p := &pool{o: o, rawArgs: rawArgs}
	defer p.close()
	p.add(1)
	loadS := time.Since(t0).Seconds()
	sums := p.exploreAll(runs, hdr)
	for _, s := range sums {
		s.LoadS = loadS
	}
	var b []byte
	if o.runsFile != "" {
		b, _ = json.MarshalIndent(map[string]any{"runs": sums}, "", " ")
	} else {
		b, _ = json.MarshalIndent(sums[0], "", " ")
	}
	if o.out != "" {
		os.WriteFile(o.out, b, 0o644)
	} else {
		os.Stdout.Write(b)
		fmt.Println()
	}
}

func firstLine(s string) string {
	if i := strings.IndexByte(s, '\n'); i >= 0 {
		return s[:i]
	}
	return s
}

func runConcrete(o *options, rs runSpec, sum *summary, t0 time.Time) {
	b, err := os.ReadFile(o.concrete)
	if err != nil {
		fatal("read model: %v", err)
	}
	var m struct {
		Vals   map[string]string `json:"vals"`
		Prefix string            `json:"prefix"`
	}
	if err := json.Unmarshal(b, &m); err != nil {
		fatal("parse model: %v", err)
	}
	vals := map[string]uint64{}
	for k, v := range m.Vals {
		switch v {
		case "true":
			vals[k] = 1
		case "false":
			vals[k] = 0
		default:
			u, _ := strconv.ParseUint(v, 10, 64)
			vals[k] = u
		}
	}
	l := load(o)
	j := l.job(o, rs)
	e := interp.NewExplorer(j)
	defer e.Close()
	// free (scheduling) choices are taken from the recorded decision vector
	var prefix []string
	for _, t := range strings.Fields(m.Prefix) {
		if strings.HasPrefix(t, "f") {
			prefix = append(prefix, t)
		}
	}
	res, _ := e.RunPrefix(j, prefix, vals)
	for _, r := range res {
		sum.Kinds[r.Kind]++
		if r.Final {
			sum.Paths++
		}
		switch r.Kind {
		case interp.KOK, interp.KAssume:
			sum.Samples = append(sum.Samples, r)
		case interp.KAssert, interp.KPanic, interp.KRuntime, interp.KDeadlock, interp.KRace:
			sum.Violations = append(sum.Violations, r)
		default:
			sum.Problems = append(sum.Problems, r)
		}
	}
	sum.Complete = true
	sum.Stats = *statsOf(e)
	sum.Workers = 1
	finish(o, sum, t0)
}

func finish(o *options, sum *summary, t0 time.Time) {
	sum.WallS = time.Since(t0).Seconds()
	sort.Slice(sum.Violations, func(i, j int) bool { return sum.Violations[i].Msg < sum.Violations[j].Msg })
	b, _ := json.MarshalIndent(sum, "", " ")
	if o.out != "" {
		os.WriteFile(o.out, b, 0o644)
	} else {
		os.Stdout.Write(b)
		fmt.Println()
	}
	fmt.Fprintf(os.Stderr, "symgo %s %v: complete=%v paths=%d kinds=%v queries=%d solver=%.1fs instrs=%d workers=%d wall=%.1fs %s\n",
		sum.Entry, sum.Params, sum.Complete, sum.Paths, sum.Kinds, sum.Stats.Queries, sum.Stats.SolverS, sum.Stats.Instrs, sum.Workers, sum.WallS, sum.Why)
}

func main() {
	os.Setenv("PATH", "/opt/veriftools/go1.26.8/bin:"+os.Getenv("PATH"))
	os.Setenv("GOTOOLCHAIN", "local")
	if len(os.Args) < 2 {
		fatal("usage: symgo run|worker [flags]")
	}
	switch os.Args[1] {
	case "run":
		runMain(parseFlags(os.Args[2:]), os.Args[2:])
	case "worker":
		workerMain(parseFlags(os.Args[2:]))
	default:
		fatal("unknown command %s", os.Args[1])
	}
}
