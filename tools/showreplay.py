#!/usr/bin/env python3
"""print a replay file compactly, decoding string observations"""
import json,re,sys
def dec(o): return re.sub(r'\bs(\d+(?:\.\d+)*)\b', lambda m: repr(bytes(int(x) for x in m.group(1).split('.')).decode('latin1')), o)
for f in sys.argv[1:]:
    b=json.load(open(f))
    print(b['property'], b['run'], b['params'], b['kind'], b['msg'][:220])
    print('   model:', {k:v for k,v in b['model'].items() if v not in('0','false')})
    for o in (b.get('observed') or [])[:4]: print('   obs:', dec(o)[:600])
