#!/usr/bin/env python3
"""register.py <Cxx> <level text> <level note> [fixed-line ...]  -- add/replace a check in MANIFEST.json and append fixed lines"""
import json,sys
pid,text,note=sys.argv[1:4]
m=json.load(open('/verif/MANIFEST.json'))
checks={c['property_id']:c for c in m['checks']}
checks[pid]={"property_id": pid, "quick_cmd": f"./check {pid} --tier quick", "thorough_cmd": f"./check {pid} --tier thorough", "evidence_file": f"evidence/{pid}.json",
   "replay_cmd_template": "./check replay {path}", "engine": "symgo",
   "level_claimed": {"category": "model_checking", "text": text, "design_ref": f"DESIGN.md §5 {pid}"},
   "level_note": note, "technique": "bounded symbolic execution of the Go SSA of /repo + SMT (z3/cvc5), counterexamples replayed natively"}
m['checks']=[checks[k] for k in sorted(checks)]
m['engines'][0]['serves_properties']=sorted(checks)
json.dump(m,open('/verif/MANIFEST.json','w'),indent=1)
if len(sys.argv)>4:
    k=json.load(open('/verif/known_findings.json'))
    k['fixed']+=sys.argv[4:]
    json.dump(k,open('/verif/known_findings.json','w'),indent=1)
