#!/usr/bin/env python3
"""print a compact summary of a symgo result file"""
import json,sys,re
def dec(o):
    return re.sub(r'\bs(\d+(?:\.\d+)*)\b', lambda m: json.dumps(bytes(int(x) for x in m.group(1).split('.')).decode('latin1')), o)
rr=json.load(open(sys.argv[1]))
runs=rr['runs'] if 'runs' in rr else [rr]
for r in runs:
    seen=set()
    for p in (r.get('problems') or []):
        k=(p['kind'],p['msg'].split('\n')[0])
        if k in seen: continue
        seen.add(k)
        lines=[l for l in p['msg'].split('\n') if 'symgo/interp.' in l][:6]
        print(r['entry'],r['params'],'PROBLEM',p['kind'],p['msg'].split('\n')[0][:300],'@',p.get('where'),' | '.join(l.strip()[:60] for l in lines))
    seen=set()
    for p in (r.get('violations') or []):
        k=(p['msg'],p.get('where'))
        if k in seen: continue
        seen.add(k)
        print(r['entry'],r['params'],'VIOLATION',p['kind'],p['msg'][:200],'@',p.get('where'),{k:v for k,v in (p.get('model') or {}).items() if v not in ('0','false')}, [dec(o) for o in (p.get('obs') or [])[:4]])
