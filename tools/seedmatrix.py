#!/usr/bin/env python3
"""Runs every seeded change under seeded/ through tools/seedcheck.sh (confirmation in a scratch
worktree + the property's check, plus extra checks named in EXTRA) and records the outcome in
seeded/<id>/meta.json and in build/seed-evidence/matrix.md.  Development aid, not a registered command.
usage: seedmatrix.py [-j N] [ids...]"""
import json, os, subprocess, sys, glob, concurrent.futures as cf
V = os.path.dirname(os.path.dirname(os.path.abspath(__file__)))
EXTRA = {"C08-b": ["C18"], "C09-a": ["C01"], "C10-a": ["C07"], "C03-a": ["C14", "C15"], "C03-b": ["C14", "C15"], "C14-b": [], "C06-a": ["C08"], "C19-b": []}


def one(sid, workers):
    sd = os.path.join(V, "seeded", sid)
    pid = sid.split("-")[0]
    checks = [pid] + EXTRA.get(sid, [])
    env = dict(os.environ, VERIF_WORKERS=str(workers))
    r = subprocess.run([os.path.join(V, "tools", "seedcheck.sh"), sd] + checks, env=env, stdout=subprocess.PIPE, stderr=subprocess.STDOUT, text=True)
    out = r.stdout
    meta = json.load(open(os.path.join(sd, "meta.json")))
    conf = dict(demo_on_unchanged_tree="pass" if "demo-on-clean: pass" in out else "FAIL", suite_with_change="pass" if "suite-with-change: pass" in out else "FAIL",
                demo_with_change="fail" if "demo-with-change: fail" in out else "PASS")
    if "patch does not apply" in out or "apply failed" in out:
        meta["final_result"] = "does not apply on the current HEAD (the code it changes was rewritten by a later fix: commit)"
        meta["caught_by"] = []
    else:
        meta["confirmed"].update(conf)
        res = {}
        for l in out.splitlines():
            if l.startswith("check "):
                c = l.split()[1].rstrip(":")
                code = l.split("exit=")[1].split()[0]
                res[c] = {"0": "missed (exit 0)", "1": "caught (exit 1, VIOLATION line)", "3": "inconclusive (exit 3)"}.get(code, "exit " + code)
        meta["check_results"] = res
        meta["caught_by"] = [c for c, v in res.items() if v.startswith("caught")]
        meta["final_result"] = "caught" if pid in meta["caught_by"] else ("caught by another property's check only" if meta["caught_by"] else "missed")
        meta["ran"] = "tools/seedcheck.sh seeded/%s %s  (scratch worktree of /repo HEAD %s with the change applied; ./check <id> pointed at it)" % (
            sid, " ".join(checks), subprocess.check_output(["git", "-C", "/repo", "rev-parse", "--short", "HEAD"], text=True).strip())
    json.dump(meta, open(os.path.join(sd, "meta.json"), "w"), indent=1)
    return sid, meta.get("final_result"), meta.get("check_results")


def main():
    a = sys.argv[1:]
    j = 2
    if a[:1] == ["-j"]:
        j = int(a[1]); a = a[2:]
    ids = a or sorted(os.path.basename(d) for d in glob.glob(os.path.join(V, "seeded", "C*-?")))
    with cf.ThreadPoolExecutor(j) as ex:
        for sid, fin, res in ex.map(lambda s: one(s, 16 // j), ids):
            print(sid, fin, res, flush=True)


if __name__ == "__main__":
    main()
