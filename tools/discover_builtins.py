#!/usr/bin/env python3
"""Explores harness/C08/builtins.go for every function of the generated table and classifies the runs:
clean (explored completely, nothing unsupported), violating, or outside the engine's reach (with the reason).
Writes build/gen/C08/discovery.json.  Development aid used to choose the parameter sets registered in harness/C08/spec.json."""
import json, os, subprocess, sys
V = os.path.dirname(os.path.dirname(os.path.abspath(__file__)))
subprocess.run(["python3", os.path.join(V, "tools", "gen_c05_tables.py")], check=True, stdout=subprocess.DEVNULL)
names = json.load(open(os.path.join(V, "build/gen/C08/functions.json")))
L = int(sys.argv[1]) if len(sys.argv) > 1 else 1
ONLY = [int(x) for x in sys.argv[2].split(",")] if len(sys.argv) > 2 else None
solver = "cvc5 --incremental --lang=smt2 --tlimit-per=60000"
runs = [dict(entry="VerifBuiltin", params={"FN": i, "L": L}, fuel=3000000, preempt=2, timeout_s=int(os.environ.get("DISC_TIMEOUT", "150"))) for i in (ONLY if ONLY is not None else range(len(names)))]
rf = os.path.join(V, "build/gen/C08/disc.runs"); json.dump(runs, open(rf, "w"))
out = os.path.join(V, "build/gen/C08/disc.out.json")
os.makedirs(os.path.join(V, "build", "mod"), exist_ok=True)
for f in ("go.mod", "go.sum"):
    open(os.path.join(V, "build/mod", f), "wb").write(open(os.path.join("/repo", f), "rb").read())
subprocess.run([os.path.join(V, "build/symgo"), "run", "-repo", "/repo", "-harness", os.path.join(V, "harness/C08/builtins.go"), "-runs", rf, "-modfile", os.path.join(V, "build/mod/go.mod"),
                "-out", out, "-workers", "16", "-solver", solver, "-max-paths", "6000"], stderr=open(os.path.join(V, "build/gen/C08/disc.err"), "w"))
d = json.load(open(out)); rl = d["runs"] if "runs" in d else [d]
res = {}
for r in rl:
    n = names[r["params"]["FN"]]
    kinds = r["kinds"]
    probs = sorted({(p["kind"] + ": " + p["msg"].split("\n")[0])[:160] for p in (r.get("problems") or [])})
    viol = sorted({(v["kind"] + ": " + v.get("msg", "")[:100] + " @ " + v.get("where", "")[-60:]) for v in (r.get("violations") or [])})
    st = "clean" if r["complete"] and not probs and not viol else ("violation" if viol else "out-of-reach")
    res[n] = dict(status=st, paths=r["paths"], wall=round(r["wall_s"], 1), complete=r["complete"], why=r.get("incomplete_reason", ""), problems=probs[:3], violations=viol[:4])
json.dump(res, open(os.path.join(V, "build/gen/C08/discovery.json"), "w"), indent=1)
from collections import Counter
print(Counter(v["status"] for v in res.values()))
for n, v in res.items():
    if v["status"] == "violation":
        print("VIOLATION", n, v["violations"])
