#!/bin/bash
# seedcheck.sh <seed-dir> [check ids...]
#   1. confirms a seeded change in a scratch worktree: suite passes with it, demo fails with it, demo passes without it
#   2. applies it to /repo, runs the given checks (default: the id in the directory name), undoes it
# Development aid; not a registered command.  Evidence/replays of these runs go to build/seed-evidence, never to evidence/.
set -u
SD=$(readlink -f "$1"); shift
NAME=$(basename "$SD"); ID=${NAME%%-*}
CHECKS=${*:-$ID}
VERIF=$(dirname "$(dirname "$(readlink -f "$0")")")
WT=/tmp/sc-$NAME
OUT=$VERIF/build/seed-evidence/$NAME; mkdir -p "$OUT"
PKG=$(sed -n 1p "$SD/DEMO.txt"); CMD=$(sed -n 2p "$SD/DEMO.txt")
PATCH="$SD/patch.diff"
if ! git -C /repo apply --check "$PATCH" 2>/dev/null && [ -f "$SD/patch.rebased.diff" ]; then PATCH="$SD/patch.rebased.diff"; fi   # the same change carried over a later fix: commit
res() { echo "$1" | tee -a "$OUT/summary.txt"; }
: > "$OUT/summary.txt"
if [ "${SKIP_CONFIRM:-0}" != 1 ]; then
  git -C /repo worktree remove --force "$WT" >/dev/null 2>&1
  git -C /repo worktree add --detach "$WT" HEAD >/dev/null 2>&1 || { res "worktree failed"; exit 2; }
  cd "$WT"
  cp "$SD/demo_test.go" "$PKG/zz_seed_demo_test.go"
  if (eval "$CMD") >"$OUT/demo_clean.log" 2>&1; then res "demo-on-clean: pass"; else res "demo-on-clean: FAIL (bad seed)"; fi
  rm -f "$PKG/zz_seed_demo_test.go"
  if ! git apply "$PATCH"; then res "patch does not apply"; cd /; git -C /repo worktree remove --force "$WT"; exit 2; fi
  if go build ./... >"$OUT/build.log" 2>&1 && go test -vet=off -count=1 ./... >"$OUT/suite.log" 2>&1; then res "suite-with-change: pass"; else res "suite-with-change: FAIL (bad seed)"; fi
  cp "$SD/demo_test.go" "$PKG/zz_seed_demo_test.go"
  if (eval "$CMD") >"$OUT/demo_seeded.log" 2>&1; then res "demo-with-change: pass (bad seed)"; else res "demo-with-change: fail (as required)"; fi
  cd /; git -C /repo worktree remove --force "$WT"
fi
if [ "${IN_REPO:-0}" = 1 ]; then
  # the way the checks are used: the change applied to /repo itself, undone straight afterwards
  [ -n "$(git -C /repo status --porcelain)" ] && { res "/repo not clean, refusing"; exit 2; }
  git -C /repo apply "$PATCH" || { res "apply to /repo failed"; exit 2; }
  trap 'git -C /repo checkout -- . ' EXIT
  TARGET=/repo; BDIR=$VERIF/build
else
  # parallel triage: the change applied to a scratch worktree, the checks pointed at it
  TARGET=/tmp/sr-$NAME; BDIR=/tmp/sb-$NAME
  git -C /repo worktree remove --force "$TARGET" >/dev/null 2>&1
  git -C /repo worktree add --detach "$TARGET" HEAD >/dev/null 2>&1 || { res "worktree failed"; exit 2; }
  git -C "$TARGET" apply "$PATCH" || { res "apply failed"; exit 2; }
  mkdir -p "$BDIR"
  trap 'git -C /repo worktree remove --force "$TARGET"; rm -rf "$BDIR"' EXIT
fi
cd "$VERIF"
for c in $CHECKS; do
  t0=$(date +%s)
  VERIF_REPO=$TARGET VERIF_BUILD=$BDIR VERIF_SYMGO=$VERIF/build/symgo VERIF_EVIDENCE_DIR=$OUT VERIF_REPLAYS_DIR=$OUT/replays ./check $c ${TIER:+--tier $TIER} >"$OUT/check_$c.out" 2>"$OUT/check_$c.err"; rc=$?
  res "check $c: exit=$rc $(grep -c '^VIOLATION' "$OUT/check_$c.out") violation line(s) $(( $(date +%s)-t0 )) s"
  grep '^VIOLATION' "$OUT/check_$c.out" | head -3 | tee -a "$OUT/summary.txt"
  [ $rc = 3 ] && grep INCONCLUSIVE "$OUT/check_$c.err" | head -3 | tee -a "$OUT/summary.txt"
done
