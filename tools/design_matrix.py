#!/usr/bin/env python3
"""Rewrites the seeded-change table of DESIGN.md (between the seed-matrix markers) from seeded/*/meta.json."""
import glob, json, os, re
V = os.path.dirname(os.path.dirname(os.path.abspath(__file__)))
rows = []
for f in sorted(glob.glob(os.path.join(V, "seeded", "C*-?", "meta.json"))):
    m = json.load(open(f))
    cr = m.get("check_results", {})
    res = "; ".join(f"{c}: {v.split(' (')[0]}" for c, v in cr.items()) or m.get("final_result", "-")
    rows.append(f"| {m['id']} | {m['needs_to_manifest']} | {m.get('first_round_result','-')} | {m.get('final_result','-')} | {res} |")
tab = "| seed | what it needs in order to manifest | first round | now | per check |\n|---|---|---|---|---|\n" + "\n".join(rows)
p = os.path.join(V, "DESIGN.md"); s = open(p).read()
s = re.sub(r"<!-- seed-matrix:begin -->.*?<!-- seed-matrix:end -->", "<!-- seed-matrix:begin -->\n" + tab + "\n<!-- seed-matrix:end -->", s, flags=re.S)
open(p, "w").write(s)
n = len(rows); caught = sum(1 for r in rows if "| caught |" in r)
print(n, "seeds,", caught, "caught by their own property's check")
