#!/bin/bash
# usage: gotest_overlay.sh <pkgdir> <file_test.go> [go test args]   -- runs a test file injected by overlay (nothing written to /repo)
set -e
PKG=$1; F=$(readlink -f $2); shift 2
export PATH=/opt/veriftools/go1.26.8/bin:$PATH GOTOOLCHAIN=local GOPROXY=off GOSUMDB=off GOFLAGS=-mod=mod
mkdir -p /verif/build/mod; cp ${VERIF_REPO:-/repo}/go.mod ${VERIF_REPO:-/repo}/go.sum /verif/build/mod/
OV=$(mktemp /verif/build/ov.XXXXXX.json)
echo "{\"Replace\":{\"${VERIF_REPO:-/repo}/$PKG/zz_dbg_test.go\":\"$F\"}}" > $OV
cd ${VERIF_REPO:-/repo} && go test -vet=off -count=1 -modfile=/verif/build/mod/go.mod -overlay $OV "$@" ./$PKG; rm -f $OV
