#!/usr/bin/env python3
"""Rewrites §0.3 of DESIGN.md (between the status markers) from harness/*/spec.json and evidence/*.json."""
import glob, json, os, re
V = os.path.dirname(os.path.dirname(os.path.abspath(__file__)))
out = []
for sp in sorted(glob.glob(os.path.join(V, "harness", "C*", "spec.json"))):
    pid = os.path.basename(os.path.dirname(sp))
    s = json.load(open(sp))
    ev = {}
    try:
        ev = json.load(open(os.path.join(V, "evidence", pid + ".json")))
    except Exception:
        pass
    c = ev.get("coverage", {})
    q = c.get("queries", {})
    out.append(f"**{pid}** - {c.get('states','?')} paths, {q.get('total','?')} queries ({q.get('decided_by_second_solver',0)} by the second solver), "
               f"{c.get('traces_validated_against_impl','?')} passing paths replayed natively, {ev.get('wall_s','?')} s ({ev.get('tier','quick')} tier); "
               f"known findings hit: {', '.join(c.get('known_findings_hit', [])) or 'none'}")
    out.append("")
    for r in s["runs"]:
        nq = len(r.get("quick") or [])
        nt = len(r.get("thorough") or r.get("quick") or [])  # the thorough tier falls back to the quick sets
        solver = "cvc5" if "cvc5" in (r.get("solver") or s.get("solver") or "") else "z3"
        out.append(f"* `{r['name']}` ({os.path.normpath(os.path.join('harness', pid, r['harness']))}:{r['entry']}, {nq} quick / {nt} thorough parameter sets, {solver}): {r.get('claim','')}")
    out.append("")
p = os.path.join(V, "DESIGN.md"); t = open(p).read()
t = re.sub(r"<!-- status:begin -->.*?<!-- status:end -->", "<!-- status:begin -->\n" + "\n".join(out) + "\n<!-- status:end -->", t, flags=re.S)
open(p, "w").write(t)
print(len(out), "lines")
