import json, sys, glob
import jsonschema
jsonschema.validate(json.load(open('/verif/MANIFEST.json')), json.load(open('/root/.vp/MANIFEST.schema.json')))
for f in glob.glob('/verif/evidence/*.json'):
    jsonschema.validate(json.load(open(f)), json.load(open('/root/.vp/EVIDENCE.schema.json')))
    print('ok', f)
print('manifest ok')
